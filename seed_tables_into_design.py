#!/usr/bin/env python3
"""Regenerates the seed tables of DESIGN.md section 12 (rounds 2..9) from
seeded/*/meta.json and final.json: replaces the table that follows each
'### 12.N ' header (or a ROUND<N>TABLE placeholder)."""
import os, re, subprocess, sys
V = os.path.dirname(os.path.abspath(__file__))
SPECIAL = {  # seeds deliberately left unreported by their target check (see the round's text)
    "C05-8": ("missed (and left so: not a violation of C05)", "not reported by C05 (outside its statement, see above); reported by C06"),
    "C11-15": ("missed (and left so: not a violation of C11)", "not reported (nil and empty map hold the same pairs, see above)"),
    "C08-15": ("missed (and left so: not a violation of C08)", "not reported by C08 (outside its statement, see above); reported by C18"),
}
p = os.path.join(V, "DESIGN.md")
s = open(p).read()
for rnd in range(2, 10):
    t = subprocess.run([sys.executable, os.path.join(V, "seed_table.py"), str(rnd)], stdout=subprocess.PIPE, text=True).stdout.rstrip("\n")
    rows = []
    for l in t.split("\n"):
        cells = l.split(" | ")
        sd = cells[0].strip("| ")
        if sd in SPECIAL:
            cells[-2] = SPECIAL[sd][0]
            cells[-1] = SPECIAL[sd][1] + " |"
            l = " | ".join(cells)
        rows.append(l)
    t = "\n".join(rows)
    ph = "ROUND%dTABLE" % rnd
    if ph in s:
        s = s.replace(ph, t, 1)
        continue
    m = re.search(r"^### 12\.%d .*?$" % rnd, s, re.M)
    if not m:
        print("no header for round", rnd)
        continue
    i = s.find("| seed | change |", m.end())
    nxt = s.find("\n### ", m.end())
    if i < 0 or (nxt >= 0 and i > nxt):
        print("no table for round", rnd)
        continue
    j = s.find("\n\n", i)
    if j < 0:
        j = len(s)
    s = s[:i] + t + s[j:]
open(p, "w").write(s)
print("tables regenerated")
