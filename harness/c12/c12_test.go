// Package c12 decides property C12: Integer, Date and String primitives are
// exact inverses within their domain.
package c12

import (
	"bytes"
	"encoding/binary"
	"fmt"
	"math"
	"math/big"
	"testing"
	"time"

	"github.com/go-i2p/common/data"
	"pgregory.net/rapid"

	"verif/internal/ev"
)

const rule = "(results of the integer encoders and readers are held while other values go through the same functions and while each is overwritten in turn: they are values of their own) cases: (value,width) pairs from boundary sets 2^(8n)-1/2^(8n)/2^63-1, uniform per width, arbitrary int64 and sizes -2..10; raw 0..10-byte integers; millisecond dates from boundaries (2^31, 2^32 s, the UnixNano limit 9223372036854, 2^k+-2, 2^63-1), uniform int64 and 1970..2300; byte strings 0..300 for the string reader (exact, suffixed, short, arbitrary); widths 1-2 and string lengths 0..300 enumerated completely. Oracle: math/big big-endian arithmetic and inverse laws. Non-trivial: integer >= 256 or width > 1 (or a rejected out-of-domain pair other than the smallest), raw integer of >= 2 bytes, date >= 256 ms, string with >= 1 content byte or a short string of >= 2 bytes; distinct by (sub-check, value, width) or input bytes."

func TestMain(m *testing.M) { ev.Main(m, "C12", rule) }

// ---------------------------------------------------------------------------
// oracle: big-endian with math/big, independent of encoding/binary for ints

func beBytes(v uint64, n int) []byte {
	b := new(big.Int).SetUint64(v).Bytes()
	out := make([]byte, n)
	if len(b) > n {
		return nil
	}
	copy(out[n-len(b):], b)
	return out
}

func fits(v uint64, n int) bool {
	if n >= 8 {
		return true
	}
	lim := new(big.Int).Lsh(big.NewInt(1), uint(8*n))
	return new(big.Int).SetUint64(v).Cmp(lim) < 0
}

// ---------------------------------------------------------------------------
// integers

type IntCase struct {
	Value  int64  `json:"value"`
	Size   int    `json:"size"`
	Suffix string `json:"suffix_hex"`
}

func checkInt(c IntCase, r *ev.Rec) error {
	v, n := c.Value, c.Size
	inDomain := v >= 0 && n >= 1 && n <= 8 && fits(uint64(v), n)
	i1, e1 := data.NewIntegerFromInt(int(v), n)
	b2, e2 := data.EncodeIntN(int(v), n)
	if !inDomain {
		r.Class("int:out-of-domain")
		if e1 == nil {
			return fmt.Errorf("NewIntegerFromInt(%d,%d) accepted a value outside its domain: % x", v, n, i1.Bytes())
		}
		if e2 == nil {
			return fmt.Errorf("EncodeIntN(%d,%d) accepted a value outside its domain: % x", v, n, b2)
		}
		if v >= 256 || n != 1 {
			r.NonTrivialStr(c, "int-rej", fmt.Sprint(v), fmt.Sprint(n))
		}
		return nil
	}
	r.Class(fmt.Sprintf("int:width-%d", n))
	want := beBytes(uint64(v), n)
	if e1 != nil || i1 == nil {
		return fmt.Errorf("NewIntegerFromInt(%d,%d) rejected an in-domain value: %v", v, n, e1)
	}
	if e2 != nil {
		return fmt.Errorf("EncodeIntN(%d,%d) rejected an in-domain value: %v", v, n, e2)
	}
	if !bytes.Equal(i1.Bytes(), want) {
		return fmt.Errorf("NewIntegerFromInt(%d,%d) = % x, want % x", v, n, i1.Bytes(), want)
	}
	if !bytes.Equal(b2, want) {
		return fmt.Errorf("EncodeIntN(%d,%d) = % x, want % x", v, n, b2, want)
	}
	if got := i1.Int(); int64(got) != v {
		return fmt.Errorf("Integer(% x).Int() = %d, want %d", want, got, v)
	}
	if got, err := i1.IntSafe(); err != nil || int64(got) != v {
		return fmt.Errorf("Integer(% x).IntSafe() = %d,%v want %d", want, got, err, v)
	}
	if got, err := i1.UintSafe(); err != nil || got != uint64(v) {
		return fmt.Errorf("Integer(% x).UintSafe() = %d,%v want %d", want, got, err, v)
	}
	if got, err := data.DecodeIntN(want); err != nil || int64(got) != v {
		return fmt.Errorf("DecodeIntN(% x) = %d,%v want %d", want, got, err, v)
	}
	if i1.IsZero() != (v == 0) {
		return fmt.Errorf("Integer(% x).IsZero() = %v", want, i1.IsZero())
	}
	// reader on encoding ++ suffix
	suf := ev.UnH(c.Suffix)
	in := append(append([]byte{}, want...), suf...)
	ri, rem := data.ReadInteger(in, n)
	if !bytes.Equal(ri, want) || !bytes.Equal(rem, suf) {
		return fmt.Errorf("ReadInteger(% x,%d) = % x rem % x", in, n, ri, rem)
	}
	pi, prem, perr := data.NewInteger(in, n)
	if perr != nil || pi == nil || !bytes.Equal(*pi, want) || !bytes.Equal(prem, suf) {
		return fmt.Errorf("NewInteger(% x,%d) = %v rem % x err %v", in, n, pi, prem, perr)
	}
	ci, cerr := data.NewIntegerFromBytes(want)
	if cerr != nil || !bytes.Equal(ci, want) {
		return fmt.Errorf("NewIntegerFromBytes(% x) = % x,%v", want, ci, cerr)
	}
	// shorter input than declared: never a complete value
	for k := 0; k < n; k++ {
		si, _ := data.ReadInteger(want[:k], n)
		if len(si) >= n {
			return fmt.Errorf("ReadInteger on %d of %d bytes returned a complete value % x", k, n, si)
		}
	}
	// results are values of their own: they are held while other values go through
	// the same functions, then each is overwritten in turn
	held := [][]byte{b2, i1.Bytes(), []byte(ri), []byte(*pi), []byte(ci)}
	other := beBytes(^uint64(v), n)
	ov := int(new(big.Int).SetBytes(other).Uint64() & 0x7fffffffffffffff)
	if !fits(uint64(ov), n) {
		ov = 0
	}
	for rep := 0; rep < 3; rep++ {
		data.EncodeIntN(ov, n)
		data.NewIntegerFromInt(ov, n)
		data.ReadInteger(append(append([]byte{}, other...), 9), n)
		data.NewInteger(append([]byte{}, other...), n)
		data.NewIntegerFromBytes(other)
		data.DecodeIntN(other)
	}
	names := []string{"EncodeIntN", "NewIntegerFromInt(...).Bytes()", "ReadInteger", "NewInteger", "NewIntegerFromBytes"}
	for i, h := range held {
		if !bytes.Equal(h, want) {
			return fmt.Errorf("the result of %s(%d,%d) changed after other values were encoded and decoded: % x, want % x (results share memory)", names[i], v, n, h, want)
		}
	}
	// the encoder's output belongs to the caller: writing into it changes nothing else
	// (the readers may return views of their input, so only the encoder result is written)
	ref := append([]byte{}, want...)
	for j := range b2 {
		b2[j] ^= 0xff
	}
	for k := 1; k < len(held); k++ {
		if !bytes.Equal(held[k], ref) {
			return fmt.Errorf("writing into the result of EncodeIntN changed the result of %s", names[k])
		}
	}
	if b3, e3 := data.EncodeIntN(int(v), n); e3 != nil || !bytes.Equal(b3, ref) {
		return fmt.Errorf("EncodeIntN(%d,%d) = % x after an earlier result was overwritten, want % x", v, n, b3, ref)
	}
	if v >= 256 || n > 1 {
		r.NonTrivialStr(c, "int", fmt.Sprint(v), fmt.Sprint(n))
	}
	return nil
}

var boundaryInts = func() []int64 {
	var out []int64
	for n := 1; n <= 8; n++ {
		if n < 8 {
			out = append(out, int64(1)<<(8*n)-1, int64(1)<<(8*n), int64(1)<<(8*n)+1)
		}
	}
	out = append(out, math.MaxInt64, math.MaxInt64-1, 0, 1, -1, math.MinInt64, 1<<31, 1<<31-1, 1<<32, 1<<32-1)
	return out
}()

func genInt(t *rapid.T) IntCase {
	var v int64
	switch rapid.IntRange(0, 3).Draw(t, "vkind") {
	case 0:
		v = rapid.SampledFrom(boundaryInts).Draw(t, "boundary")
	case 1:
		w := rapid.IntRange(1, 8).Draw(t, "w")
		hi := uint64(math.MaxInt64)
		if w < 8 {
			hi = uint64(1)<<(8*w) - 1
		}
		v = int64(rapid.Uint64Range(0, hi).Draw(t, "v"))
	case 2:
		v = rapid.Int64().Draw(t, "v")
	default:
		v = rapid.Int64Range(0, 70000).Draw(t, "v")
	}
	n := rapid.IntRange(-2, 10).Draw(t, "size")
	if rapid.IntRange(0, 3).Draw(t, "fitkind") > 0 {
		n = rapid.IntRange(1, 8).Draw(t, "size18")
	}
	suf := rapid.SliceOfN(rapid.Byte(), 0, 12).Draw(t, "suffix")
	return IntCase{Value: v, Size: n, Suffix: ev.H(suf)}
}

var propInt = &ev.Prop[IntCase]{Sub: "int", Quick: 120000, Thorough: 6000000, Gen: genInt, Check: checkInt}

// ---------------------------------------------------------------------------
// raw bytes -> unsigned accessor, DecodeIntN

type RawIntCase struct {
	Hex string `json:"hex"`
}

func checkRawInt(c RawIntCase, r *ev.Rec) error {
	b := ev.UnH(c.Hex)
	i := data.Integer(b)
	want := new(big.Int).SetBytes(b)
	u, err := i.UintSafe()
	if len(b) == 0 || len(b) > 8 {
		r.Class("raw:bad-length")
		if err == nil {
			return fmt.Errorf("UintSafe accepted %d bytes", len(b))
		}
		if _, e := i.IntSafe(); e == nil {
			return fmt.Errorf("IntSafe accepted %d bytes", len(b))
		}
		if _, e := data.DecodeIntN(b); e == nil {
			return fmt.Errorf("DecodeIntN accepted %d bytes", len(b))
		}
		if _, e := data.NewIntegerFromBytes(b); e == nil {
			return fmt.Errorf("NewIntegerFromBytes accepted %d bytes", len(b))
		}
		return nil
	}
	if err != nil || new(big.Int).SetUint64(u).Cmp(want) != 0 {
		return fmt.Errorf("Integer(% x).UintSafe() = %d,%v want %s", b, u, err, want)
	}
	d, derr := data.DecodeIntN(b)
	if want.IsInt64() {
		if derr != nil || int64(d) != want.Int64() {
			return fmt.Errorf("DecodeIntN(% x) = %d,%v want %s", b, d, derr, want)
		}
		if got := i.Int(); int64(got) != want.Int64() {
			return fmt.Errorf("Integer(% x).Int() = %d want %s", b, got, want)
		}
	} else {
		r.Class("raw:high-bit")
		if derr == nil {
			return fmt.Errorf("DecodeIntN(% x) = %d: value exceeds int but no error", b, d)
		}
	}
	if len(b) == 8 {
		var a [8]byte
		copy(a[:], b)
		if got := data.DecodeUint64(a); got != u {
			return fmt.Errorf("DecodeUint64(% x)=%d", b, got)
		}
		if got := data.DecodeInt64(a); got != int64(u) {
			return fmt.Errorf("DecodeInt64(% x)=%d", b, got)
		}
		if got := data.EncodeUint64(u); got != a {
			return fmt.Errorf("EncodeUint64(%d)=% x", u, got)
		}
		if got := data.EncodeInt64(int64(u)); got != a {
			return fmt.Errorf("EncodeInt64(%d)=% x", int64(u), got)
		}
	}
	if len(b) == 4 {
		var a [4]byte
		copy(a[:], b)
		if got := data.DecodeUint32(a); uint64(got) != u {
			return fmt.Errorf("DecodeUint32(% x)=%d", b, got)
		}
		if got := data.DecodeInt32(a); got != int32(uint32(u)) {
			return fmt.Errorf("DecodeInt32(% x)=%d", b, got)
		}
		if got := data.EncodeUint32(uint32(u)); got != a {
			return fmt.Errorf("EncodeUint32(%d)=% x", u, got)
		}
		if got := data.EncodeInt32(int32(uint32(u))); got != a {
			return fmt.Errorf("EncodeInt32(%d)=% x", u, got)
		}
	}
	if len(b) == 2 {
		var a [2]byte
		copy(a[:], b)
		if got := data.DecodeUint16(a); uint64(got) != u {
			return fmt.Errorf("DecodeUint16(% x)=%d", b, got)
		}
		if got := data.DecodeInt16(a); got != int16(uint16(u)) {
			return fmt.Errorf("DecodeInt16(% x)=%d", b, got)
		}
		if got := data.EncodeUint16(uint16(u)); got != a {
			return fmt.Errorf("EncodeUint16(%d)=% x", u, got)
		}
		if got := data.EncodeInt16(int16(uint16(u))); got != a {
			return fmt.Errorf("EncodeInt16(%d)=% x", u, got)
		}
	}
	if len(b) >= 2 {
		r.NonTrivial(c, []byte("raw"), b)
	}
	return nil
}

func genRawInt(t *rapid.T) RawIntCase {
	n := rapid.IntRange(0, 10).Draw(t, "len")
	if rapid.Bool().Draw(t, "pow2") {
		n = rapid.SampledFrom([]int{2, 4, 8, 8}).Draw(t, "len2")
	}
	b := rapid.SliceOfN(rapid.Byte(), n, n).Draw(t, "bytes")
	if n > 0 && rapid.IntRange(0, 3).Draw(t, "hi") == 0 {
		b[0] |= 0x80
	}
	return RawIntCase{Hex: ev.H(b)}
}

var propRaw = &ev.Prop[RawIntCase]{Sub: "rawint", Quick: 80000, Thorough: 4000000, Gen: genRawInt, Check: checkRawInt}

// ---------------------------------------------------------------------------
// dates

type DateCase struct {
	Millis int64  `json:"millis"`
	Suffix string `json:"suffix_hex"`
}

func checkDate(c DateCase, r *ev.Rec) error {
	ms := c.Millis
	d, err := data.NewDateFromMillis(ms)
	if ms < 0 {
		r.Class("date:negative")
		if err == nil {
			return fmt.Errorf("NewDateFromMillis(%d) accepted a negative value", ms)
		}
		if _, e := data.NewDateFromUnix(ms); e == nil {
			return fmt.Errorf("NewDateFromUnix(%d) accepted a negative value", ms)
		}
		return nil
	}
	want := beBytes(uint64(ms), 8)
	if err != nil || d == nil {
		return fmt.Errorf("NewDateFromMillis(%d) rejected: %v", ms, err)
	}
	if !bytes.Equal(d.Bytes(), want) {
		return fmt.Errorf("NewDateFromMillis(%d) = % x, want % x", ms, d.Bytes(), want)
	}
	if int64(d.Int()) != ms {
		return fmt.Errorf("Date(% x).Int() = %d, want %d", want, d.Int(), ms)
	}
	if got := d.Time().UnixMilli(); got != ms {
		return fmt.Errorf("Date(% x).Time().UnixMilli() = %d, want %d", want, got, ms)
	}
	if d.IsZero() != (ms == 0) {
		return fmt.Errorf("Date(% x).IsZero()=%v", want, d.IsZero())
	}
	// time.Time -> Date
	d2, err := data.DateFromTime(time.UnixMilli(ms))
	if err != nil || d2 == nil || !bytes.Equal(d2.Bytes(), want) {
		return fmt.Errorf("DateFromTime(UnixMilli(%d)) = %v,%v want % x", ms, d2, err, want)
	}
	d2b, err := data.DateFromTime(d.Time())
	if err != nil || d2b == nil || !bytes.Equal(d2b.Bytes(), want) {
		return fmt.Errorf("DateFromTime(Date.Time()) = %v,%v want % x", d2b, err, want)
	}
	// the same instant expressed in other locations is the same Date
	for _, off := range []int{-12 * 3600, -7*3600 - 1800, 3600, 5*3600 + 2700, 14 * 3600} {
		zt := time.UnixMilli(ms).In(time.FixedZone("z", off))
		dz, err := data.DateFromTime(zt)
		if err != nil || dz == nil || !bytes.Equal(dz.Bytes(), want) {
			return fmt.Errorf("DateFromTime(%d ms expressed at UTC%+d s) = %v,%v want % x: the zone of a time.Time is presentation, not part of the instant", ms, off, dz, err, want)
		}
	}
	// seconds constructor: exact s*1000 or rejection, never a wrapped value
	secs := ms / 1000
	d3, err := data.NewDateFromUnix(secs)
	if err == nil {
		w3 := new(big.Int).Mul(big.NewInt(secs), big.NewInt(1000))
		if got := new(big.Int).SetBytes(d3.Bytes()); got.Cmp(w3) != 0 {
			return fmt.Errorf("NewDateFromUnix(%d) = % x (%s), want %s", secs, d3.Bytes(), got, w3)
		}
	} else {
		return fmt.Errorf("NewDateFromUnix(%d) rejected an in-range timestamp: %v", secs, err)
	}
	// reader
	suf := ev.UnH(c.Suffix)
	in := append(append([]byte{}, want...), suf...)
	rd, rem, err := data.ReadDate(in)
	if err != nil || !bytes.Equal(rd.Bytes(), want) || !bytes.Equal(rem, suf) {
		return fmt.Errorf("ReadDate(% x) = % x rem % x err %v", in, rd.Bytes(), rem, err)
	}
	pd, prem, err := data.NewDate(in)
	if err != nil || pd == nil || !bytes.Equal(pd.Bytes(), want) || !bytes.Equal(prem, suf) {
		return fmt.Errorf("NewDate(% x) = %v rem % x err %v", in, pd, prem, err)
	}
	for k := 0; k < 8; k++ {
		if _, _, e := data.ReadDate(want[:k]); e == nil {
			return fmt.Errorf("ReadDate accepted %d bytes", k)
		}
		if p, _, e := data.NewDate(want[:k]); e == nil || p != nil {
			return fmt.Errorf("NewDate accepted %d bytes", k)
		}
	}
	if ms >= 1<<31 {
		r.Class("date:>=2^31")
	}
	if ms > math.MaxInt64/1000000 {
		r.Class("date:beyond-unixnano")
	}
	if ms >= 256 {
		r.NonTrivialStr(c, "date", fmt.Sprint(ms))
	}
	return nil
}

var boundaryMillis = []int64{
	0, 1, 255, 256, 999, 1000, 1001, (1 << 31) - 1, 1 << 31, (1 << 31) * 1000, (1<<32 - 1) * 1000, (1 << 32) * 1000,
	9223372036854, 9223372036855, 9223372036856, 10000000000000, 1 << 53, 1 << 62,
	math.MaxInt64, math.MaxInt64 - 1, math.MaxInt64 / 1000 * 1000, -1, math.MinInt64,
}

func genDate(t *rapid.T) DateCase {
	var ms int64
	switch rapid.IntRange(0, 3).Draw(t, "kind") {
	case 0:
		ms = rapid.SampledFrom(boundaryMillis).Draw(t, "boundary")
	case 1:
		ms = rapid.Int64Range(0, math.MaxInt64).Draw(t, "ms")
	case 2:
		// realistic range 1970..2300
		ms = rapid.Int64Range(0, 10413792000000).Draw(t, "ms")
	default:
		sh := rapid.IntRange(0, 62).Draw(t, "shift")
		ms = (int64(1) << sh) + rapid.Int64Range(-2, 2).Draw(t, "delta")
	}
	suf := rapid.SliceOfN(rapid.Byte(), 0, 10).Draw(t, "suffix")
	return DateCase{Millis: ms, Suffix: ev.H(suf)}
}

var propDate = &ev.Prop[DateCase]{Sub: "date", Quick: 80000, Thorough: 4000000, Gen: genDate, Check: checkDate}

// ---------------------------------------------------------------------------
// strings

type StrCase struct {
	Hex string `json:"hex"` // arbitrary input to the reader
}

func checkStrRead(c StrCase, r *ev.Rec) error {
	b := ev.UnH(c.Hex)
	str, rem, err := data.ReadI2PString(b)
	if len(b) == 0 {
		if err == nil {
			return fmt.Errorf("ReadI2PString(empty) succeeded")
		}
		return nil
	}
	n := int(b[0])
	if len(b) < 1+n {
		r.Class("str:short")
		if err == nil {
			return fmt.Errorf("ReadI2PString: declared %d, have %d bytes, no error (str % x)", n, len(b)-1, str)
		}
		if _, e := data.NewI2PStringFromBytes(b); e == nil {
			return fmt.Errorf("NewI2PStringFromBytes accepted a short string % x", b)
		}
		if len(b) >= 2 {
			r.NonTrivial(c, []byte("short"), b)
		}
		return nil
	}
	r.Class("str:complete")
	if err != nil {
		return fmt.Errorf("ReadI2PString(% x) rejected a complete string: %v", b, err)
	}
	if !bytes.Equal(str, b[:1+n]) || !bytes.Equal(rem, b[1+n:]) {
		return fmt.Errorf("ReadI2PString(% x) = % x rem % x", b, str, rem)
	}
	s, derr := str.Data()
	if derr != nil || s != string(b[1:1+n]) {
		return fmt.Errorf("I2PString(% x).Data() = %q,%v", str, s, derr)
	}
	s2, derr := str.DataSafe()
	if derr != nil || s2 != s {
		return fmt.Errorf("I2PString(% x).DataSafe() = %q,%v", str, s2, derr)
	}
	if l, lerr := str.Length(); lerr != nil || l != n {
		return fmt.Errorf("I2PString(% x).Length() = %d,%v", str, l, lerr)
	}
	if !str.IsValid() {
		return fmt.Errorf("I2PString(% x).IsValid() = false", str)
	}
	fb, ferr := data.NewI2PStringFromBytes(b)
	if len(b) == 1+n {
		if ferr != nil || !bytes.Equal(fb, b) {
			return fmt.Errorf("NewI2PStringFromBytes(% x) = % x,%v", b, fb, ferr)
		}
	} else if ferr == nil {
		return fmt.Errorf("NewI2PStringFromBytes accepted trailing bytes: % x", b)
	}
	// constructors from content
	for name, f := range map[string]func(string) (data.I2PString, error){"NewI2PString": data.NewI2PString, "ToI2PString": data.ToI2PString} {
		cs, cerr := f(s)
		if cerr != nil || !bytes.Equal(cs, b[:1+n]) {
			return fmt.Errorf("%s(%q) = % x,%v want % x", name, s, cs, cerr, b[:1+n])
		}
	}
	if n >= 1 {
		r.NonTrivial(c, []byte("complete"), b)
	}
	return nil
}

func genStr(t *rapid.T) StrCase {
	kind := rapid.IntRange(0, 4).Draw(t, "kind")
	var b []byte
	switch kind {
	case 0: // arbitrary
		b = rapid.SliceOfN(rapid.Byte(), 0, 300).Draw(t, "bytes")
	case 1: // exact
		n := rapid.IntRange(0, 255).Draw(t, "n")
		b = append([]byte{byte(n)}, rapid.SliceOfN(rapid.Byte(), n, n).Draw(t, "content")...)
	case 2: // with suffix
		n := rapid.SampledFrom([]int{0, 1, 2, 127, 128, 254, 255}).Draw(t, "n")
		b = append([]byte{byte(n)}, rapid.SliceOfN(rapid.Byte(), n, n+44).Draw(t, "content")...)
	case 3: // short by k
		n := rapid.IntRange(1, 255).Draw(t, "n")
		k := rapid.IntRange(0, n-1).Draw(t, "have")
		b = append([]byte{byte(n)}, rapid.SliceOfN(rapid.Byte(), k, k).Draw(t, "content")...)
	default:
		n := rapid.IntRange(250, 255).Draw(t, "n")
		tot := rapid.IntRange(n-3, n+3).Draw(t, "tot")
		b = append([]byte{byte(n)}, rapid.SliceOfN(rapid.Byte(), tot, tot).Draw(t, "content")...)
	}
	return StrCase{Hex: ev.H(b)}
}

var propStr = &ev.Prop[StrCase]{Sub: "strread", Quick: 60000, Thorough: 3000000, Gen: genStr, Check: checkStrRead}

type StrLenCase struct {
	Len  int    `json:"len"`
	Fill uint64 `json:"fill_seed"`
}

func fillBytes(n int, seed uint64) []byte {
	b := make([]byte, n)
	x := seed | 1
	for i := range b {
		x ^= x << 13
		x ^= x >> 7
		x ^= x << 17
		b[i] = byte(x)
	}
	return b
}

func checkStrLen(c StrLenCase, r *ev.Rec) error {
	content := string(fillBytes(c.Len, c.Fill))
	for name, f := range map[string]func(string) (data.I2PString, error){"NewI2PString": data.NewI2PString, "ToI2PString": data.ToI2PString} {
		s, err := f(content)
		if c.Len > 255 {
			if err == nil {
				return fmt.Errorf("%s accepted %d bytes (result len %d, length byte %d)", name, c.Len, len(s), s[0])
			}
			continue
		}
		if err != nil {
			return fmt.Errorf("%s rejected %d bytes: %v", name, c.Len, err)
		}
		if len(s) != c.Len+1 || int(s[0]) != c.Len || string(s[1:]) != content {
			return fmt.Errorf("%s(%d bytes) = len %d, length byte %d", name, c.Len, len(s), s[0])
		}
		back, rem, err := data.ReadI2PString(s)
		if err != nil || len(rem) != 0 || !bytes.Equal(back, s) {
			return fmt.Errorf("ReadI2PString(%s(%d bytes)) err %v rem %d", name, c.Len, err, len(rem))
		}
	}
	r.Class(fmt.Sprintf("strlen:%s", map[bool]string{true: "over", false: "within"}[c.Len > 255]))
	r.NonTrivialStr(c, "strlen", fmt.Sprint(c.Len), fmt.Sprint(c.Fill%16))
	return nil
}

// ---------------------------------------------------------------------------

func TestRegress(t *testing.T) {
	propInt.Regress(t)
	propRaw.Regress(t)
	propDate.Regress(t)
	propStr.Regress(t)
}

func TestReplay(t *testing.T) {
	ok := propInt.Replay(t) || propRaw.Replay(t) || propDate.Replay(t) || propStr.Replay(t) || propStrLen.Replay(t)
	_ = ok
}

var propStrLen = &ev.Prop[StrLenCase]{Sub: "strlen", Quick: 4000, Thorough: 100000,
	Gen: func(t *rapid.T) StrLenCase {
		n := rapid.IntRange(0, 700).Draw(t, "len")
		if rapid.Bool().Draw(t, "edge") {
			n = rapid.IntRange(250, 260).Draw(t, "edgelen")
		}
		return StrLenCase{Len: n, Fill: rapid.Uint64().Draw(t, "fill")}
	}, Check: checkStrLen}

func TestPropInt(t *testing.T)    { propInt.Run(t) }
func TestPropRawInt(t *testing.T) { propRaw.Run(t) }
func TestPropDate(t *testing.T)   { propDate.Run(t) }
func TestPropStr(t *testing.T)    { propStr.Run(t) }
func TestPropStrLen(t *testing.T) { propStrLen.Run(t) }

// Exhaustive part: widths 1 and 2, all values (plus the first values that do
// not fit), all sizes -2..10 for a set of probe values; every string length
// 0..300 for the constructors.
func TestEnumWidths(t *testing.T) {
	ev.Enumerate(t, "int-widths-1-2", false, func(_, _ int, r *ev.Rec) error {
		for n := 1; n <= 2; n++ {
			for v := int64(0); v <= 65537; v++ {
				if err := propInt.One(IntCase{Value: v, Size: n}); err != nil {
					return err
				}
			}
		}
		for n := -2; n <= 10; n++ {
			for _, v := range boundaryInts {
				if err := propInt.One(IntCase{Value: v, Size: n, Suffix: "00ff"}); err != nil {
					return err
				}
			}
		}
		for l := 0; l <= 300; l++ {
			if err := propStrLen.One(StrLenCase{Len: l, Fill: uint64(l) * 77}); err != nil {
				return err
			}
		}
		for _, ms := range boundaryMillis {
			if err := propDate.One(DateCase{Millis: ms, Suffix: "ab"}); err != nil {
				return err
			}
		}
		return nil
	})
}

var _ = binary.BigEndian
