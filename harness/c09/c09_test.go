// Package c09 decides property C09: prohibited key types never appear in a
// Destination or RouterIdentity, and permitted supported combinations are
// never rejected.
package c09

import (
	"fmt"
	"testing"

	"github.com/go-i2p/common/certificate"
	"github.com/go-i2p/common/destination"
	"github.com/go-i2p/common/encrypted_leaseset"
	"github.com/go-i2p/common/key_certificate"
	"github.com/go-i2p/common/keys_and_cert"
	"github.com/go-i2p/common/lease_set"
	"github.com/go-i2p/common/lease_set2"
	"github.com/go-i2p/common/meta_leaseset"
	"github.com/go-i2p/common/router_identity"
	"github.com/go-i2p/common/router_info"
	"github.com/go-i2p/crypto/chacha20poly1305"
	"github.com/go-i2p/crypto/kdf"
	"go.step.sm/crypto/x25519"
	"pgregory.net/rapid"

	"verif/internal/ev"
	"verif/internal/libkeys"
	"verif/internal/model"
)

const rule = "cases: (signing type, crypto type, seed) x every API path that yields a Destination (NewDestination from a constructed, from a parsed and from a reused KeysAndCert object that held a permitted identity before, NewDestinationFromBytes, ReadDestination, ReadLeaseSet, ReadDestinationFromLeaseSet, ReadLeaseSet2 and ReadMetaLeaseSet with and without an offline-key block (transient key types Ed25519, Ed25519ph, RSA-2048, DSA, RedDSA) and with the other flag bits, RouterIdentity.AsDestination, CreateBlindedDestination, DecryptInnerData on ciphertexts crafted by an independent encryptor, inner LeaseSet2 with and without offline keys) or a RouterIdentity (NewRouterIdentity, NewRouterIdentityWithCompressiblePadding, NewRouterIdentityFromKeysAndCert with a fresh and with a reused KeysAndCert object, NewRouterIdentityFromBytes, ReadRouterIdentity, ReadRouterInfo); types {0..20} x {0..10,255} exhaustively each run, boundary codes 65279..65535 and sampled codes by rapid; the pair (0,0) also as the NULL-certificate 387-byte identity; wire forms are built byte-wise (key material sized by the specification table, excess key bytes in the certificate). Oracle: policy table transcribed from the specification's usage columns - a Destination never declares signing 4,5,6,8 or crypto 5,6,7; a RouterIdentity additionally never signing 11; if a path returns without error the declared types are outside the table, and a path that refuses does not hand the complete prohibited identity back together with the error; every permitted and supported pair (signing {0,1,2,7} x crypto {0,4}, plus 11 for Destinations) succeeds on every path. Non-trivial: pair prohibited or permitted-and-supported; distinct by (pair, path)."

func TestMain(m *testing.M) { ev.Main(m, "C09", rule) }

func destProhibited(st, et int) bool {
	return st == 4 || st == 5 || st == 6 || st == 8 || et == 5 || et == 6 || et == 7
}
func riProhibited(st, et int) bool { return destProhibited(st, et) || st == 11 }
func supported(st, et int, forDest bool) bool {
	okS := st == 0 || st == 1 || st == 2 || st == 7 || (forDest && st == 11)
	return okS && (et == 0 || et == 4)
}

type Case struct {
	Sig  int    `json:"sig"`
	Enc  int    `json:"enc"`
	Seed uint64 `json:"seed"`
	// Null: the pair (0, 0) expressed by a NULL certificate (the classic 387-byte identity)
	Null bool `json:"null_cert,omitempty"`
}

// rawIdent builds identity bytes for arbitrary type codes.
func rawIdent(st, et int, seed uint64) []byte {
	sl, okS := model.SigPubLen[st]
	el, okE := model.EncPubLen[et]
	if !okS {
		sl = 32
	}
	if !okE {
		el = 32
	}
	block := model.Fill(384, seed)
	if et == 0 {
		copy(block, model.ElgPub(seed))
	}
	if k := model.NewSignKey(st, seed); k != nil && sl <= 128 {
		copy(block[384-sl:], k.Pub)
	} else if st == 0 {
		copy(block[256:], model.DSAPubValueValid(seed))
	}
	extra := 0
	if sl > 128 {
		extra += sl - 128
	}
	if el > 256 {
		extra += el - 256
	}
	return append(block, model.KeyCert(st, et, model.Fill(extra, seed+1)).Encode()...)
}

func sigLenOr(st, def int) int {
	if n, ok := model.SigLen[st]; ok {
		return n
	}
	return def
}
func sigPubLenOr(st, def int) int {
	if n, ok := model.SigPubLen[st]; ok {
		return n
	}
	return def
}

// ls2Header: destination | published | expires | flags | [offline block] for the
// LeaseSet2-style structures. The offline block (flag bit 0) carries an Ed25519
// transient key; its signature has the length of the destination's signing type.
// Returns the header and the length of the trailing signature.
func ls2Header(id []byte, st int, seed uint64, offline bool, flags byte) ([]byte, int) {
	return ls2HeaderT(id, st, seed, offline, flags, 7)
}

// ls2HeaderT: the transient key may be of any signing type - also of the types that
// are reserved for offline use (Ed25519ph, RSA) and therefore prohibited for the
// destination itself. The policy is about the destination's own certificate.
func ls2HeaderT(id []byte, st int, seed uint64, offline bool, flags byte, ttype int) ([]byte, int) {
	b := append(append([]byte{}, id...), model.U32(1700000000)...)
	b = append(b, 0, 100)
	if !offline {
		return append(b, 0, flags&^1), sigLenOr(st, 64)
	}
	b = append(b, 0, flags|1)
	b = append(b, model.U32(1800000000)...)
	b = append(b, byte(ttype>>8), byte(ttype))
	if k := model.NewSignKey(ttype, seed+11); k != nil {
		b = append(b, k.Pub...)
	} else {
		b = append(b, model.Fill(sigPubLenOr(ttype, 32), seed+11)...)
	}
	b = append(b, model.Fill(sigLenOr(st, 64), seed+12)...)
	return b, sigLenOr(ttype, 64)
}

func readLS2Path(offline bool, flags byte) func(id []byte, st, et int, seed uint64) (*destination.Destination, error) {
	return readLS2PathT(offline, flags, 7)
}

func readLS2PathT(offline bool, flags byte, ttype int) func(id []byte, st, et int, seed uint64) (*destination.Destination, error) {
	return func(id []byte, st, _ int, seed uint64) (*destination.Destination, error) {
		b, sl := ls2HeaderT(id, st, seed, offline, flags, ttype)
		b = append(b, 0, 0) // empty options
		b = append(b, 1, 0, 4, 0, 32)
		b = append(b, model.Fill(32, seed)...)
		b = append(b, 1)
		b = append(b, model.Fill(40, seed+1)...)
		b = append(b, model.Fill(sl+64, seed+2)...)
		ls, _, err := lease_set2.ReadLeaseSet2(b)
		if err != nil {
			return nil, err
		}
		d := ls.Destination()
		return &d, nil
	}
}

func readMetaPath(offline bool, flags byte) func(id []byte, st, et int, seed uint64) (*destination.Destination, error) {
	return func(id []byte, st, _ int, seed uint64) (*destination.Destination, error) {
		b, sl := ls2Header(id, st, seed, offline, flags)
		b = append(b, 0, 0)
		b = append(b, 1)
		b = append(b, model.Fill(32, seed)...)
		b = append(b, 3, 0, 0, 0, 9, 1, 0, 0)
		b = append(b, model.Fill(sl+64, seed+2)...)
		ls, _, err := meta_leaseset.ReadMetaLeaseSet(b)
		if err != nil {
			return nil, err
		}
		d := ls.Destination()
		return &d, nil
	}
}

type destPath struct {
	name string
	f    func(id []byte, st, et int, seed uint64) (*destination.Destination, error)
}

func typesOfDest(d *destination.Destination) (int, int, bool) {
	if d == nil || d.KeysAndCert == nil || d.KeyCertificate == nil {
		return 0, 0, false
	}
	return d.KeyCertificate.SigningPublicKeyType(), d.KeyCertificate.PublicKeyType(), true
}

var destPaths = []destPath{
	{"ReadDestination", func(id []byte, _, _ int, _ uint64) (*destination.Destination, error) {
		d, _, err := destination.ReadDestination(id)
		return &d, err
	}},
	{"NewDestinationFromBytes", func(id []byte, _, _ int, _ uint64) (*destination.Destination, error) {
		d, _, err := destination.NewDestinationFromBytes(id)
		return d, err
	}},
	{"NewDestination(ReadKeysAndCert)", func(id []byte, _, _ int, _ uint64) (*destination.Destination, error) {
		k, _, err := keys_and_cert.ReadKeysAndCert(id)
		if err != nil {
			return nil, err
		}
		return destination.NewDestination(k)
	}},
	{"NewDestination(reused *KeysAndCert)", func(id []byte, _, _ int, seed uint64) (*destination.Destination, error) {
		// one scratch KeysAndCert object: first it holds a permitted identity and is
		// wrapped, then it is overwritten with the identity under test and wrapped again
		k, _, err := keys_and_cert.ReadKeysAndCert(rawIdent(7, 4, seed+5))
		if err != nil {
			return nil, err
		}
		if _, err := destination.NewDestination(k); err != nil {
			return nil, fmt.Errorf("first use: %v", err)
		}
		k2, _, err := keys_and_cert.ReadKeysAndCert(id)
		if err != nil {
			return nil, err
		}
		*k = *k2
		return destination.NewDestination(k)
	}},
	{"NewDestination(NewKeysAndCert)", func(id []byte, st, et int, _ uint64) (*destination.Destination, error) {
		mid, _, err := model.DecodeIdent(id)
		if err != nil {
			return nil, err
		}
		return libkeys.Dest(mid)
	}},
	{"ReadLeaseSet", func(id []byte, st, _ int, seed uint64) (*destination.Destination, error) {
		b := append(append([]byte{}, id...), model.ElgPub(seed+2)...)
		rk := model.Fill(sigPubLenOr(st, 128), seed+3)
		if k := model.NewSignKey(st, seed+3); k != nil {
			rk = k.Pub
		}
		b = append(b, rk...)
		b = append(b, 1)
		b = append(b, model.Fill(44, seed+4)...)
		b = append(b, model.Fill(sigLenOr(st, 40), seed+5)...)
		ls, err := lease_set.ReadLeaseSet(b)
		if err != nil {
			return nil, err
		}
		d := ls.Destination()
		return &d, nil
	}},
	{"ReadDestinationFromLeaseSet", func(id []byte, _, _ int, seed uint64) (*destination.Destination, error) {
		d, _, err := lease_set.ReadDestinationFromLeaseSet(append(append([]byte{}, id...), model.Fill(400, seed)...))
		return &d, err
	}},
	{"ReadLeaseSet2", readLS2Path(false, 0)},
	{"ReadLeaseSet2(offline keys)", readLS2Path(true, 0)},
	{"ReadLeaseSet2(offline keys, unpublished, blinded)", readLS2Path(true, 6)},
	{"ReadLeaseSet2(unpublished)", readLS2Path(false, 2)},
	{"ReadLeaseSet2(offline keys, transient Ed25519ph)", readLS2PathT(true, 0, 8)},
	{"ReadLeaseSet2(offline keys, transient RSA-2048)", readLS2PathT(true, 0, 4)},
	{"ReadLeaseSet2(offline keys, transient DSA)", readLS2PathT(true, 0, 0)},
	{"ReadLeaseSet2(offline keys, transient RedDSA)", readLS2PathT(true, 2, 11)},
	{"ReadMetaLeaseSet", readMetaPath(false, 0)},
	{"ReadMetaLeaseSet(offline keys)", readMetaPath(true, 0)},
	{"RouterIdentity.AsDestination", func(id []byte, _, _ int, _ uint64) (*destination.Destination, error) {
		ri, _, err := router_identity.ReadRouterIdentity(id)
		if err != nil {
			return nil, err
		}
		d := ri.AsDestination()
		return &d, nil
	}},
	{"DecryptInnerData", decryptPath(false)},
	{"DecryptInnerData(inner offline keys)", decryptPath(true)},
	{"CreateBlindedDestination", func(id []byte, _, _ int, seed uint64) (*destination.Destination, error) {
		// the argument must itself come from the API (a struct literal is not an API path)
		src, _, err := destination.ReadDestination(id)
		if err != nil {
			return nil, err
		}
		d, err := encrypted_leaseset.CreateBlindedDestination(src, model.Fill(32, seed), timeAt(1700000000))
		return &d, err
	}},
}

func decryptPath(offline bool) func(id []byte, st, et int, seed uint64) (*destination.Destination, error) {
	return func(id []byte, st, _ int, seed uint64) (*destination.Destination, error) {
		// inner LeaseSet2 with this destination, encrypted by an independent
		// implementation of the documented scheme (ephemeral X25519, HKDF purpose
		// key, ChaCha20-Poly1305; layout eph | nonce | ciphertext | tag)
		b, sl := ls2Header(id, st, seed, offline, 0)
		b = append(b, 0, 0)
		b = append(b, 1, 0, 4, 0, 32)
		b = append(b, model.Fill(32, seed)...)
		b = append(b, 1)
		b = append(b, model.Fill(40, seed+1)...)
		b = append(b, model.Fill(sl, seed+2)...)
		rpriv := x25519.PrivateKey(model.Fill(32, seed+7))
		rpub, err := rpriv.PublicKey()
		if err != nil {
			return nil, err
		}
		epriv := x25519.PrivateKey(model.Fill(32, seed+8))
		epub, err := epriv.PublicKey()
		if err != nil {
			return nil, err
		}
		shared, err := epriv.SharedKey(rpub)
		if err != nil {
			return nil, err
		}
		var root [32]byte
		copy(root[:], shared)
		key, err := kdf.NewKeyDerivation(root).DeriveForPurpose(kdf.PurposeEncryptedLeaseSetEncryption)
		if err != nil {
			return nil, err
		}
		aead, err := chacha20poly1305.NewAEAD(key)
		if err != nil {
			return nil, err
		}
		nonce := model.Fill(12, seed+9)
		ct, tag, err := aead.Encrypt(b, nil, nonce)
		if err != nil {
			return nil, err
		}
		inner := append(append(append(append([]byte{}, epub...), nonce...), ct...), tag[:]...)
		bk := model.NewSignKey(11, seed)
		e := model.ELS{SigType: 11, Blinded: bk.Pub, Published: 1700000000, Expires: 600, Inner: inner}
		e.Sig = bk.Sign(e.SignedPart())
		els, _, err := encrypted_leaseset.ReadEncryptedLeaseSet(e.Encode())
		if err != nil {
			return nil, fmt.Errorf("outer EncryptedLeaseSet: %v", err)
		}
		ls, err := els.DecryptInnerData(model.Fill(32, 1), rpriv)
		if err != nil {
			return nil, err
		}
		d := ls.Destination()
		return &d, nil
	}
}

type riPath struct {
	name string
	f    func(id []byte, st, et int, seed uint64) (*router_identity.RouterIdentity, error)
}

func riFromParts(id []byte, compressible bool) (*router_identity.RouterIdentity, error) {
	mid, _, err := model.DecodeIdent(id)
	if err != nil {
		return nil, err
	}
	c, err := certificate.NewCertificateWithType(uint8(mid.Cert.Type), mid.Cert.Payload)
	if err != nil {
		return nil, err
	}
	pk, err := libkeys.PubKey(mid.EncType, mid.Enc)
	if err != nil {
		return nil, err
	}
	sk, err := libkeys.SigPub(mid.SigType, mid.Sig)
	if err != nil {
		return nil, err
	}
	if compressible {
		return router_identity.NewRouterIdentityWithCompressiblePadding(pk, sk, c)
	}
	return router_identity.NewRouterIdentity(pk, sk, c, mid.Pad)
}

var riPaths = []riPath{
	{"ReadRouterIdentity", func(id []byte, _, _ int, _ uint64) (*router_identity.RouterIdentity, error) {
		ri, _, err := router_identity.ReadRouterIdentity(id)
		return ri, err
	}},
	{"NewRouterIdentityFromBytes", func(id []byte, _, _ int, _ uint64) (*router_identity.RouterIdentity, error) {
		ri, _, err := router_identity.NewRouterIdentityFromBytes(id)
		return ri, err
	}},
	{"NewRouterIdentityFromKeysAndCert(ReadKeysAndCert)", func(id []byte, _, _ int, _ uint64) (*router_identity.RouterIdentity, error) {
		k, _, err := keys_and_cert.ReadKeysAndCert(id)
		if err != nil {
			return nil, err
		}
		return router_identity.NewRouterIdentityFromKeysAndCert(k)
	}},
	{"NewRouterIdentityFromKeysAndCert(reused *KeysAndCert)", func(id []byte, _, _ int, seed uint64) (*router_identity.RouterIdentity, error) {
		k, _, err := keys_and_cert.ReadKeysAndCert(rawIdent(7, 4, seed+5))
		if err != nil {
			return nil, err
		}
		if _, err := router_identity.NewRouterIdentityFromKeysAndCert(k); err != nil {
			return nil, fmt.Errorf("first use: %v", err)
		}
		k2, _, err := keys_and_cert.ReadKeysAndCert(id)
		if err != nil {
			return nil, err
		}
		*k = *k2
		return router_identity.NewRouterIdentityFromKeysAndCert(k)
	}},
	{"NewRouterIdentity", func(id []byte, _, _ int, _ uint64) (*router_identity.RouterIdentity, error) {
		return riFromParts(id, false)
	}},
	{"NewRouterIdentityWithCompressiblePadding", func(id []byte, _, _ int, _ uint64) (*router_identity.RouterIdentity, error) {
		return riFromParts(id, true)
	}},
	{"ReadRouterInfo", func(id []byte, st, _ int, seed uint64) (*router_identity.RouterIdentity, error) {
		b := append(append([]byte{}, id...), model.U64(1700000000000)...)
		b = append(b, 0, 0, 0, 0)
		b = append(b, model.Fill(sigLenOr(st, 40)+8, seed)...)
		info, _, err := router_info.ReadRouterInfo(b)
		if err != nil {
			return nil, err
		}
		return info.RouterIdentity(), nil
	}},
}

func check(c Case, r *ev.Rec) error {
	st, et := c.Sig, c.Enc
	id := rawIdent(st, et, c.Seed)
	if c.Null {
		st, et = 0, 0
		id = append(rawIdent(0, 0, c.Seed)[:384], 0, 0, 0)
		r.Class("null-certificate")
	}
	// the constructors that assemble an identity from parts take a KeyCertificate;
	// a NULL-certificate identity has no such form
	fromParts := map[string]bool{"NewDestination(NewKeysAndCert)": true, "NewRouterIdentity": true, "NewRouterIdentityWithCompressiblePadding": true}
	for _, p := range destPaths {
		if c.Null && fromParts[p.name] {
			continue
		}
		d, err := p.f(id, st, et, c.Seed)
		r.Eval()
		if err == nil {
			ds, de, ok := typesOfDest(d)
			if ok && destProhibited(ds, de) {
				return fmt.Errorf("%s returned a Destination declaring signing type %d / crypto type %d (prohibited for Destinations)", p.name, ds, de)
			}
			if ok && (ds != st || de != et) && p.name != "CreateBlindedDestination" {
				return fmt.Errorf("%s returned a Destination declaring types %d/%d for an identity encoded with %d/%d", p.name, ds, de, st, et)
			}
			r.Class("dest-path-ok")
		} else if ds, de, ok := typesOfDest(d); ok && destProhibited(ds, de) {
			// refused - but the prohibited Destination itself must not come back with the error
			if b, berr := d.Bytes(); berr == nil && len(b) >= 387 {
				return fmt.Errorf("%s refused the identity (%v) but still returned a complete Destination declaring signing type %d / crypto type %d", p.name, err, ds, de)
			}
		} else if supported(st, et, true) {
			switch p.name {
			case "CreateBlindedDestination":
				if st != 7 && st != 11 {
					continue // blinding is defined for Ed25519/RedDSA only
				}
			case "RouterIdentity.AsDestination":
				if st == 11 {
					continue // no RouterIdentity with RedDSA exists
				}
			}
			return fmt.Errorf("%s rejected the permitted, supported combination signing %d / crypto %d: %v", p.name, st, et, err)
		}
		if destProhibited(st, et) || supported(st, et, true) {
			r.NonTrivialStr(map[string]any{"path": p.name, "sig": st, "enc": et, "seed": c.Seed}, p.name, fmt.Sprint(st), fmt.Sprint(et))
		}
	}
	for _, p := range riPaths {
		if c.Null && fromParts[p.name] {
			continue
		}
		ri, err := p.f(id, st, et, c.Seed)
		r.Eval()
		if err == nil {
			if ri == nil || ri.KeysAndCert == nil || ri.KeyCertificate == nil {
				return fmt.Errorf("%s returned no error and no identity", p.name)
			}
			rs, re := ri.KeyCertificate.SigningPublicKeyType(), ri.KeyCertificate.PublicKeyType()
			if riProhibited(rs, re) {
				return fmt.Errorf("%s returned a RouterIdentity declaring signing type %d / crypto type %d (prohibited for Router Identities)", p.name, rs, re)
			}
			r.Class("ri-path-ok")
		} else if ri != nil && ri.KeysAndCert != nil && ri.KeyCertificate != nil && riProhibited(ri.KeyCertificate.SigningPublicKeyType(), ri.KeyCertificate.PublicKeyType()) {
			if b, berr := ri.Bytes(); berr == nil && len(b) >= 387 {
				return fmt.Errorf("%s refused the identity (%v) but still returned a complete RouterIdentity declaring signing type %d / crypto type %d", p.name, err, ri.KeyCertificate.SigningPublicKeyType(), ri.KeyCertificate.PublicKeyType())
			}
		} else if supported(st, et, false) {
			return fmt.Errorf("%s rejected the permitted, supported combination signing %d / crypto %d: %v", p.name, st, et, err)
		}
		if riProhibited(st, et) || supported(st, et, false) {
			r.NonTrivialStr(map[string]any{"path": p.name, "sig": st, "enc": et, "seed": c.Seed}, p.name, fmt.Sprint(st), fmt.Sprint(et))
		}
	}
	switch {
	case destProhibited(st, et):
		r.Class("pair:prohibited")
	case supported(st, et, true):
		r.Class("pair:permitted-supported")
	default:
		r.Class("pair:other")
	}
	return nil
}

var prop = &ev.Prop[Case]{Sub: "policy", Quick: 40000, Thorough: 400000,
	Gen: func(t *rapid.T) Case {
		pick := func(label string, known []int) int {
			switch rapid.IntRange(0, 3).Draw(t, label+"-k") {
			case 0:
				return rapid.IntRange(65279, 65535).Draw(t, label)
			case 1:
				return rapid.IntRange(0, 65535).Draw(t, label)
			}
			return rapid.SampledFrom(known).Draw(t, label)
		}
		return Case{
			Sig:  pick("sig", []int{0, 1, 2, 3, 4, 5, 6, 7, 8, 9, 10, 11, 12}),
			Enc:  pick("enc", []int{0, 1, 2, 3, 4, 5, 6, 7, 8, 255}),
			Seed: rapid.Uint64Range(1, 1<<30).Draw(t, "seed"),
			Null: rapid.IntRange(0, 19).Draw(t, "null") == 0,
		}
	}, Check: check}

func TestRegress(t *testing.T) { prop.Regress(t) }
func TestReplay(t *testing.T)  { prop.Replay(t) }
func TestProp(t *testing.T)    { prop.Run(t) }

func TestEnumKnownCodes(t *testing.T) {
	ev.Enumerate(t, "sig-0..20-x-enc-0..10,255", true, func(shard, shards int, r *ev.Rec) error {
		n := 0
		for st := 0; st <= 20; st++ {
			for _, et := range []int{0, 1, 2, 3, 4, 5, 6, 7, 8, 9, 10, 255} {
				n++
				if n%shards != shard {
					continue
				}
				for seed := uint64(1); seed <= 2; seed++ {
					if err := prop.One(Case{Sig: st, Enc: et, Seed: seed*100 + uint64(n)}); err != nil {
						return err
					}
				}
				if st == 0 && et == 0 {
					if err := prop.One(Case{Seed: 77, Null: true}); err != nil {
						return err
					}
				}
			}
		}
		return nil
	})
}

var _ = key_certificate.KEYCERT_SIGN_ED25519
