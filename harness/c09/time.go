package c09

import "time"

func timeAt(s int64) time.Time { return time.Unix(s, 0).UTC() }
