// Package c05 decides property C05: successful verification implies
// authenticity under the identity's own key, over exactly the received bytes.
package c05

import (
	"bytes"
	"fmt"
	"testing"
	"time"

	"github.com/go-i2p/common/data"
	"github.com/go-i2p/common/encrypted_leaseset"
	"github.com/go-i2p/common/lease_set"
	"github.com/go-i2p/common/lease_set2"
	"github.com/go-i2p/common/meta_leaseset"
	"github.com/go-i2p/common/offline_signature"
	"github.com/go-i2p/common/router_address"
	"github.com/go-i2p/common/router_info"
	"pgregory.net/rapid"

	"verif/internal/ev"
	"verif/internal/gen"
	"verif/internal/libbuild"
	"verif/internal/model"
)

const rule = "cases: signed structures built by the independent model and signed with stdlib crypto - RouterInfo (Ed25519, DSA, P-256, P-384 identities), LeaseSet (DSA incl. NULL certificate, P-256, P-384, Ed25519, RedDSA), LeaseSet2 / MetaLeaseSet (library-documented layout) / EncryptedLeaseSet with and without offline block (identity types as above, transient types 0,1,2,7,11), standalone OfflineSignature - (one base in three is instead built and signed by the library's own constructors, so that a verifier that is lenient in the same way as the signer is exposed by the edits) x adversarial derivations: genuine; offline block with a random signature; offline block signed by another key of the identity's type (transplanted from another identity); outer signature random or made by an attacker key, or made by the prescribed key under another store-type prefix (0, 1, 2, 3, 5, 7, 255; for RouterInfo and LeaseSet: with a prefix prepended); field-level tampering after signing: a string (an address's transport style, a key or a value of any mapping) grown by 1..3 bytes of white space / NUL / quote / letter at its front or end with its length prefix following, one bit of any fixed-width field of a repeated element inverted (address cost and expiration, lease gateway / tunnel / end date, entry hash / type / expires / cost incl. the high bits of the one-byte fields, encryption key type), the identity's certificate given more payload (NULL and KEY), an encryption key of an experimental / unassigned / ordinary type inserted, a lease / address / entry duplicated or dropped, a mapping re-encoded with junk inside its declared size or with a repeated '=' / ';' delimiter (RouterInfo address options, LeaseSet2 options), and of an options mapping (pair with empty key or empty value added, pair appended / dropped / duplicated, order reversed, value changed - in RouterInfo options, address options, LeaseSet2 options, MetaLeaseSet options and entry properties); 1-3 byte-level edits (bit flips, byte sets, 2-byte field +-k, insertions, deletions, truncation, appended data) aimed at header, length, count, flag and key fields or anywhere. Before a tampered or edited encoding is judged, the genuine encoding it derives from is parsed and verified in the same process. Oracle: if the library parses the derived bytes and reports success, then (i) the strict model decodes exactly the consumed bytes, (ii) the outer signature verifies (crypto/ed25519, crypto/ecdsa, crypto/dsa) over prefix || consumed[:-sig] under the identity key, or under the transient key if flag bit 0 is set AND the offline block's signature verifies over expires||type||key under the identity key (blinded key for EncryptedLeaseSet). After a RouterInfo has verified, it is changed through the exported API (AddAddress, or the cost of an address through the pointer RouterAddresses() returns) and verified again: success must then hold over the value's new serialisation. Non-trivial: the derived input is not genuine and still parses; distinct by input bytes."

func TestMain(m *testing.M) { ev.Main(m, "C05", rule) }

type Case struct {
	Kind string              `json:"kind"` // ri | ls | ls2 | meta | els | offline
	RI   *gen.RouterInfoSpec `json:"ri,omitempty"`
	LS   *gen.LeaseSetSpec   `json:"ls,omitempty"`
	LS2  *gen.LS2Spec        `json:"ls2,omitempty"`
	Meta *gen.MetaSpec       `json:"meta,omitempty"`
	ELS  *gen.ELSSpec        `json:"els,omitempty"`
	// SigMode: 0 genuine outer signature, 1 random bytes, 2 made by an attacker key of the same type,
	// 3 made by a key that appears elsewhere in the structure but is not the one the specification
	// prescribes: the LeaseSet's revocation key; the destination key although a transient key is
	// attached (LeaseSet2 / MetaLeaseSet / EncryptedLeaseSet); another key for a RouterInfo
	SigMode int `json:"sig_mode"`
	// SigMode 4: made by the right key over the right content but under another store-type
	// prefix (Prefix; for the structures signed without a prefix: with one prepended)
	Prefix int `json:"prefix,omitempty"`
	// LibSigned: the base is built and signed by the library's own constructor
	// (then edited); catches a verifier that is lenient in the same way the signer is
	LibSigned bool `json:"lib_signed,omitempty"`
	// byte-level edits applied to the encoding: [kind, pos, val]
	Edits [][3]int `json:"edits,omitempty"`
	// Tamper: field-level change of a mapping inside the signed structure (decoded with the
	// model, changed, re-encoded with the stale signature): [which mapping, kind]; kind 0 = none
	Tamper [2]int `json:"tamper,omitempty"`
	// standalone offline signature: key handed to VerifySignature: 0 the right one, 1 another key, 2 wrong length
	OffKey int `json:"off_key,omitempty"`
}

// authentic is the independent verdict for signed structures with the
// LeaseSet2-style header or the EncryptedLeaseSet layout.
func offlineAuthentic(off *model.Offline, idType int, idKey []byte) bool {
	return model.Verify(idType, idKey, off.SignedPart(), off.Sig)
}

func applyEdits(b []byte, edits [][3]int) []byte {
	b = append([]byte{}, b...)
	for _, e := range edits {
		if len(b) == 0 {
			break
		}
		kind, pos, val := e[0], e[1], e[2]
		if pos < 0 {
			pos = len(b) + pos
		}
		if pos < 0 {
			pos = 0
		}
		pos %= len(b)
		switch kind {
		case 0: // bit flip
			b[pos] ^= 1 << (uint(val) % 8)
		case 1: // set byte
			b[pos] = byte(val)
		case 2: // 2-byte big-endian field += val
			if pos+1 < len(b) {
				v := (int(b[pos])<<8 | int(b[pos+1])) + val
				b[pos], b[pos+1] = byte(v>>8), byte(v)
			}
		case 3: // insert val%9+1 bytes
			n := (val&0x7fffffff)%9 + 1
			ins := model.Fill(n, uint64(val)+7)
			b = append(append(append([]byte{}, b[:pos]...), ins...), b[pos:]...)
		case 4: // delete val%9+1 bytes
			n := (val&0x7fffffff)%9 + 1
			if pos+n > len(b) {
				n = len(b) - pos
			}
			b = append(b[:pos:pos], b[pos+n:]...)
		case 5: // truncate
			b = b[:pos]
		case 6: // append
			if val < 0 {
				val = -val
			}
			b = append(b, model.Fill(val%40+1, uint64(val))...)
		}
	}
	return b
}

// tamperPairs changes one mapping: 1 append a pair with an empty key, 2 prepend an
// empty pair, 3 append a new key, 4 drop the last pair, 5 reverse the order, 6 change a
// value, 7 duplicate the first pair, 8 append a pair with an empty value.
func tamperPairs(p []model.Pair, kind int) ([]model.Pair, bool) {
	out := append([]model.Pair{}, p...)
	switch kind {
	case 1:
		return append(out, model.Pair{K: nil, V: []byte("x")}), true
	case 2:
		return append([]model.Pair{{}}, out...), true
	case 3:
		return append(out, model.Pair{K: []byte("zz"), V: []byte("1")}), true
	case 4:
		if len(out) == 0 {
			return out, false
		}
		return out[:len(out)-1], true
	case 5:
		if len(out) < 2 {
			return out, false
		}
		for i, j := 0, len(out)-1; i < j; i, j = i+1, j-1 {
			out[i], out[j] = out[j], out[i]
		}
		return out, true
	case 6:
		if len(out) == 0 {
			return out, false
		}
		v := append([]byte{}, out[0].V...)
		if len(v) == 0 {
			v = []byte{'1'}
		} else {
			v[0] ^= 1
		}
		out[0] = model.Pair{K: out[0].K, V: v}
		return out, true
	case 7:
		if len(out) == 0 {
			return out, false
		}
		return append(out, out[0]), true
	case 8:
		return append(out, model.Pair{K: []byte("k"), V: nil}), true
	}
	return out, false
}

// rawMapping re-encodes pairs as a mapping that a strict reader refuses but a lenient one may
// skip over: kind 15 junk bytes after the last pair inside the declared size, kind 16 a
// repeated '=' after a key, kind 17 a repeated ';' after a value (size field adjusted).
func rawMapping(p []model.Pair, kind, which int) ([]byte, bool) {
	var body []byte
	ins := which % (len(p) + 1)
	for i, kv := range p {
		body = append(body, byte(len(kv.K)))
		body = append(body, kv.K...)
		body = append(body, '=')
		if kind == 16 && i == ins%len(p) {
			body = append(body, '=')
		}
		body = append(body, byte(len(kv.V)))
		body = append(body, kv.V...)
		body = append(body, ';')
		if kind == 17 && i == ins%len(p) {
			body = append(body, ';')
		}
	}
	switch kind {
	case 15:
		body = append(body, model.Fill(1+which%9, uint64(which)+3)...)
	case 16, 17:
		if len(p) == 0 {
			return nil, false
		}
	default:
		return nil, false
	}
	if len(body) > 65535 {
		return nil, false
	}
	return append([]byte{byte(len(body) >> 8), byte(len(body))}, body...), true
}

// padBytes: bytes a canonicalising parser might strip from a string before storing it.
var padBytes = []byte{' ', '\t', '\n', '\r', 0x00, 0x0b, 0x0c, 0xa0, '"', 'x'}

// padString is tamper kind 18: a string field grows by one to three bytes at its front or
// its end (white space, NUL, a quote, a letter); the length prefix follows because the model
// re-encodes the structure. A parser that trims or normalises the string before
// storing it no longer holds the bytes the signature has to cover.
func padString(s []byte, which int) ([]byte, bool) {
	n := 1 + (which/20)%3
	if len(s)+n > 255 {
		return s, false
	}
	pad := bytes.Repeat([]byte{padBytes[which%len(padBytes)]}, n)
	if (which/10)%2 == 0 {
		return append(append([]byte{}, s...), pad...), true
	}
	return append(pad, s...), true
}

// padPair applies padString to the key or the value of one pair.
func padPair(p []model.Pair, which int) ([]model.Pair, bool) {
	if len(p) == 0 {
		return p, false
	}
	out := append([]model.Pair{}, p...)
	i := (which / 7) % len(out)
	if (which/3)%2 == 0 {
		v, ok := padString(out[i].V, which)
		out[i] = model.Pair{K: out[i].K, V: v}
		return out, ok
	}
	k, ok := padString(out[i].K, which)
	out[i] = model.Pair{K: k, V: out[i].V}
	return out, ok
}

// flipField is tamper kind 19: one bit of one fixed-width field of a repeated element
// (address cost / expiration, lease gateway / tunnel / end date, entry hash / type /
// expires / cost, encryption key type) is inverted - every bit of every such field is
// reachable, the high "reserved" bits of one-byte fields included.
func flipBytes(b []byte, bit int) { b[(bit/8)%len(b)] ^= 1 << uint(bit%8) }

// tamper applies Case.Tamper to the encoding of a signed structure; the signature
// stays what it was. Kinds 1..8 change one mapping (tamperPairs); kinds 9.. change the
// structure around it (18 pads a string, 19 inverts a bit of a fixed-width field: see
// padString and flipBytes): 9 the identity's certificate gets two more payload bytes (NULL
// and KEY certificates alike), 10 an encryption key of an experimental type is inserted,
// 11 an X25519 key is inserted, 12 the first lease / address / entry is duplicated at the
// end, 13 the last lease / address / entry is dropped, 14 a key of an unassigned type (9)
// with an odd length is inserted. ok=false: not applicable.
func tamper(c Case, b []byte) ([]byte, bool) {
	which, kind := c.Tamper[0], c.Tamper[1]
	if kind == 0 {
		return b, false
	}
	fits := func(p []model.Pair) bool { return model.MappingBodyLen(p) <= 65535 }
	moreCert := func(id *model.Ident) {
		id.Cert.Payload = append(append([]byte{}, id.Cert.Payload...), 0xaa, byte(which))
	}
	insKey := func(keys []model.EncKey, k model.EncKey) []model.EncKey {
		if len(keys) >= 16 {
			return nil
		}
		i := which % (len(keys) + 1)
		out := append([]model.EncKey{}, keys[:i]...)
		out = append(out, k)
		return append(out, keys[i:]...)
	}
	switch c.Kind {
	case "ri":
		m, n, err := model.DecodeRouterInfo(b)
		if err != nil || n != len(b) {
			return b, false
		}
		switch {
		case kind == 9:
			moreCert(&m.Ident)
		case kind == 12 && len(m.Addrs) > 0 && len(m.Addrs) < 255:
			m.Addrs = append(m.Addrs, m.Addrs[0])
		case kind == 13 && len(m.Addrs) > 0:
			m.Addrs = m.Addrs[:len(m.Addrs)-1]
		case kind >= 15 && kind <= 17 && len(m.Addrs) > 0:
			i := (which / 2) % len(m.Addrs)
			raw, ok := rawMapping(m.Addrs[i].Options, kind, which)
			if !ok {
				return b, false
			}
			m.Addrs[i].RawOptions = raw
		case kind == 18 && len(m.Addrs) > 0 && which%3 != 2:
			i := (which / 60) % len(m.Addrs)
			a := m.Addrs[i]
			var ok bool
			if which%3 == 0 {
				a.Style, ok = padString(a.Style, which)
			} else {
				a.Options, ok = padPair(a.Options, which)
			}
			if !ok || !fits(a.Options) {
				return b, false
			}
			m.Addrs = append([]model.RouterAddr{}, m.Addrs...)
			m.Addrs[i] = a
		case kind == 18:
			p, ok := padPair(m.Options, which)
			if !ok || !fits(p) {
				return b, false
			}
			m.Options = p
		case kind == 19 && len(m.Addrs) > 0:
			i := which % len(m.Addrs)
			bit := (which / len(m.Addrs)) % 72
			m.Addrs = append([]model.RouterAddr{}, m.Addrs...)
			if bit < 8 {
				m.Addrs[i].Cost ^= 1 << uint(bit)
			} else {
				m.Addrs[i].Expiration ^= 1 << uint(bit-8)
			}
		case kind >= 9:
			return b, false
		case which%2 == 1 && len(m.Addrs) > 0:
			i := (which / 2) % len(m.Addrs)
			p, ok := tamperPairs(m.Addrs[i].Options, kind)
			if !ok || !fits(p) {
				return b, false
			}
			m.Addrs[i].Options = p
		default:
			p, ok := tamperPairs(m.Options, kind)
			if !ok || !fits(p) {
				return b, false
			}
			m.Options = p
		}
		return m.Encode(), true
	case "ls":
		m, n, err := model.DecodeLeaseSet(b)
		if err != nil || n != len(b) {
			return b, false
		}
		switch {
		case kind == 9:
			moreCert(&m.Dest)
		case kind == 12 && len(m.Leases) > 0 && len(m.Leases) < 16:
			m.Leases = append(m.Leases, m.Leases[0])
		case kind == 13 && len(m.Leases) > 0:
			m.Leases = m.Leases[:len(m.Leases)-1]
		default:
			return b, false
		}
		return m.Encode(), true
	case "ls2":
		m, n, err := model.DecodeLS2(b)
		if err != nil || n != len(b) {
			return b, false
		}
		switch {
		case kind == 9:
			moreCert(&m.Dest)
		case kind == 10:
			if m.Keys = insKey(m.Keys, model.EncKey{Type: 0xff00 + which%255, Len: 4, Data: []byte{1, 2, 3, 4}}); m.Keys == nil {
				return b, false
			}
		case kind == 11:
			if m.Keys = insKey(m.Keys, model.EncKey{Type: 4, Len: 32, Data: model.Fill(32, 77)}); m.Keys == nil {
				return b, false
			}
		case kind == 14:
			if m.Keys = insKey(m.Keys, model.EncKey{Type: 9, Len: 7, Data: model.Fill(7, 78)}); m.Keys == nil {
				return b, false
			}
		case kind == 12 && len(m.Leases) > 0 && len(m.Leases) < 16:
			m.Leases = append(m.Leases, m.Leases[0])
		case kind == 13 && len(m.Leases) > 0:
			m.Leases = m.Leases[:len(m.Leases)-1]
		case kind >= 15 && kind <= 17:
			raw, ok := rawMapping(m.Options, kind, which)
			if !ok {
				return b, false
			}
			m.RawOptions = raw
		case kind == 18:
			p, ok := padPair(m.Options, which)
			if !ok || !fits(p) {
				return b, false
			}
			m.Options = p
		case kind == 19 && which%4 == 0 && len(m.Keys) > 0:
			i := (which / 4) % len(m.Keys)
			m.Keys = append([]model.EncKey{}, m.Keys...)
			m.Keys[i].Type ^= 1 << uint((which/64)%16)
		case kind == 19 && len(m.Leases) > 0:
			i := which % len(m.Leases)
			bit := (which / len(m.Leases)) % 320
			m.Leases = append(m.Leases[:0:0], m.Leases...)
			switch {
			case bit < 32:
				m.Leases[i].Tunnel ^= 1 << uint(bit)
			case bit < 64:
				m.Leases[i].End ^= 1 << uint(bit-32)
			default:
				flipBytes(m.Leases[i].GW[:], bit-64)
			}
		case kind >= 9:
			return b, false
		default:
			p, ok := tamperPairs(m.Options, kind)
			if !ok || !fits(p) {
				return b, false
			}
			m.Options = p
		}
		return m.Encode(), true
	case "meta":
		m, n, err := model.DecodeMetaLS(b)
		if err != nil || n != len(b) {
			return b, false
		}
		switch {
		case kind == 9:
			moreCert(&m.Dest)
		case kind == 12 && len(m.Entries) > 0 && len(m.Entries) < 255:
			m.Entries = append(m.Entries, m.Entries[0])
		case kind == 13 && len(m.Entries) > 0:
			m.Entries = m.Entries[:len(m.Entries)-1]
		case kind == 18:
			if which%2 == 1 && len(m.Entries) > 0 {
				i := (which / 60) % len(m.Entries)
				p, ok := padPair(m.Entries[i].Props, which)
				if !ok || !fits(p) {
					return b, false
				}
				m.Entries = append([]model.MetaEntry{}, m.Entries...)
				m.Entries[i].Props = p
			} else {
				p, ok := padPair(m.Options, which)
				if !ok || !fits(p) {
					return b, false
				}
				m.Options = p
			}
		case kind == 19 && len(m.Entries) > 0:
			i := which % len(m.Entries)
			bit := (which / len(m.Entries)) % 304
			m.Entries = append([]model.MetaEntry{}, m.Entries...)
			e := &m.Entries[i]
			switch {
			case bit < 8:
				e.Type ^= 1 << uint(bit)
			case bit < 16:
				e.Cost ^= 1 << uint(bit-8)
			case bit < 48:
				e.Expires ^= 1 << uint(bit-16)
			default:
				e.Hash[(bit-48)/8] ^= 1 << uint(bit%8)
			}
		case kind >= 9:
			return b, false
		case which%2 == 1 && len(m.Entries) > 0:
			i := (which / 2) % len(m.Entries)
			p, ok := tamperPairs(m.Entries[i].Props, kind)
			if !ok || !fits(p) {
				return b, false
			}
			m.Entries[i].Props = p
		default:
			p, ok := tamperPairs(m.Options, kind)
			if !ok || !fits(p) {
				return b, false
			}
			m.Options = p
		}
		return m.Encode(), true
	}
	return b, false
}

// base returns the bytes of the (possibly attacker-signed) structure before edits.
func libBase(c Case) ([]byte, bool) {
	if !c.LibSigned || c.SigMode != 0 {
		return nil, false
	}
	var b []byte
	var err error
	switch c.Kind {
	case "ri":
		if c.RI.Ident.SigType != 7 || c.RI.Ident.NullCert {
			return nil, false
		}
		b, err = libbuild.RouterInfo(*c.RI)
	case "ls":
		if t := c.LS.Dest.SigType; t != 7 && t != 11 && t != 0 {
			return nil, false
		}
		b, err = libbuild.LeaseSet(*c.LS)
	case "ls2":
		h := c.LS2.Header
		if t := h.Dest.SigType; (t != 7 && t != 11) || h.Dest.NullCert || len(c.LS2.Leases) == 0 {
			return nil, false
		}
		if h.Offline != nil && (h.Offline.Forge != 0 || (h.Offline.TType != 7 && h.Offline.TType != 11 && h.Offline.TType != 0)) {
			return nil, false
		}
		for _, k := range c.LS2.Keys {
			if n, ok := model.EncPubLen[k.Type]; ok && k.Len >= 0 && k.Len != n {
				return nil, false
			}
		}
		b, err = libbuild.LS2(*c.LS2)
	case "els":
		if (c.ELS.SigType != 7 && c.ELS.SigType != 11) || (c.ELS.Offline != nil && (c.ELS.Offline.Forge != 0 || (c.ELS.Offline.TType != 7 && c.ELS.Offline.TType != 11))) {
			return nil, false
		}
		b, err = libbuild.ELS(*c.ELS)
	default:
		return nil, false
	}
	if err != nil {
		return nil, false
	}
	return b, true
}

// wrongPrefix re-signs with the prescribed key over the content under another
// store-type prefix. prefixed: the structure's signed part starts with a prefix byte.
func wrongPrefix(k *model.SignKey, signed []byte, prefixed bool, p int) ([]byte, bool) {
	if k == nil {
		return nil, false
	}
	msg := append([]byte{}, signed...)
	if prefixed {
		if len(msg) == 0 || msg[0] == byte(p) {
			return nil, false
		}
		msg[0] = byte(p)
	} else {
		msg = append([]byte{byte(p)}, msg...)
	}
	return k.Sign(msg), true
}

func attackerSig(t int, seed uint64, msg []byte, mode int) []byte {
	if mode == 2 {
		if k := model.NewSignKey(t, seed^0xa77ac); k != nil {
			return k.Sign(msg)
		}
	}
	return model.Fill(model.SigLen[t], seed^0x51)
}

func check(c Case, r *ev.Rec) error {
	genuine := c.SigMode == 0 && len(c.Edits) == 0
	warmDonor(c, r)
	var in []byte
	switch c.Kind {
	case "ri":
		m, rk := c.RI.Build()
		if sig, ok := wrongPrefix(rk, m.SignedPart(), false, c.Prefix); c.SigMode == 4 && ok {
			m.Sig = sig
			r.Class("ri:signed-under-wrong-prefix")
		} else if c.SigMode != 0 {
			m.Sig = attackerSig(m.Ident.SigType, c.RI.Ident.KeySeed, m.SignedPart(), c.SigMode)
		}
		orig := orLib(c, r, m.Encode())
		base, tampered := tamper(c, orig)
		if tampered {
			genuine = false
			r.Class(fmt.Sprintf("ri:mapping-tampered,kind=%d", c.Tamper[1]))
		}
		in = applyEdits(base, c.Edits)
		warmGenuine(c, r, orig, in)
		info, rem, err := router_info.ReadRouterInfo(in)
		if err != nil {
			r.Class("ri:unparseable")
			return nil
		}
		ok, verr := info.VerifySignature()
		success := ok && verr == nil
		cons := in[:len(in)-len(rem)]
		dm, n, derr := model.DecodeRouterInfo(cons)
		auth := derr == nil && n == len(cons) && model.Verify(dm.Ident.SigType, dm.Ident.Sig, cons[:len(cons)-len(dm.Sig)], dm.Sig)
		if err := verdict(c, r, "RouterInfo.VerifySignature", success, auth, genuine, dm.Ident.SigType == 7, in, derr); err != nil {
			return err
		}
		// history: the value is changed through the exported API after it has verified;
		// success must still mean "valid over what the value now serialises to"
		if success {
			which := "AddAddress"
			if addrs := info.RouterAddresses(); len(addrs) > 0 && len(in)%2 == 0 {
				which = "cost of RouterAddresses()[0] changed through the returned pointer"
				nc, _ := data.NewIntegerFromInt((addrs[0].Cost()+1)%256, 1)
				addrs[0].TransportCost = nc
			} else {
				a, err := router_address.NewRouterAddress(9, time.Unix(0, 0), "NTCP2", map[string]string{"host": "10.0.0.1", "port": "4567"})
				if err != nil || info.AddAddress(a) != nil {
					return nil
				}
			}
			ok2, verr2 := info.VerifySignature()
			b2, berr := info.Bytes()
			if ok2 && verr2 == nil {
				dm2, n2, derr2 := model.DecodeRouterInfo(b2)
				if berr != nil || derr2 != nil || n2 != len(b2) || !model.Verify(dm2.Ident.SigType, dm2.Ident.Sig, b2[:len(b2)-len(dm2.Sig)], dm2.Sig) {
					return fmt.Errorf("RouterInfo.VerifySignature still reports success after %s: the signature does not cover what the value now serialises to", which)
				}
			}
			r.Class("ri:changed-after-verify")
		}
		return nil
	case "ls":
		m, lk := c.LS.Build()
		if sig, ok := wrongPrefix(lk, m.SignedPart(), false, c.Prefix); c.SigMode == 4 && ok {
			m.Sig = sig
			r.Class("ls:signed-under-wrong-prefix")
		} else if c.SigMode == 3 {
			if rk := model.NewSignKey(m.Dest.SigType, c.LS.Seed^0x5e); rk != nil { // the key in the signing_key field
				m.Sig = rk.Sign(m.SignedPart())
				r.Class("ls:signed-by-revocation-key")
				if len(m.Leases) == 0 {
					r.Class("ls:signed-by-revocation-key,no-leases")
				}
			} else {
				m.Sig = attackerSig(m.Dest.SigType, c.LS.Seed, m.SignedPart(), 2)
			}
		} else if c.SigMode != 0 {
			m.Sig = attackerSig(m.Dest.SigType, c.LS.Seed, m.SignedPart(), c.SigMode)
		}
		orig := orLib(c, r, m.Encode())
		base, tampered := tamper(c, orig)
		if tampered {
			genuine = false
			r.Class(fmt.Sprintf("ls:structure-tampered,kind=%d", c.Tamper[1]))
		}
		in = applyEdits(base, c.Edits)
		warmGenuine(c, r, orig, in)
		ls, err := lease_set.ReadLeaseSet(in)
		if err != nil {
			r.Class("ls:unparseable")
			return nil
		}
		success := ls.Verify() == nil
		dm, n, derr := model.DecodeLeaseSet(in)
		auth := derr == nil && model.Verify(dm.Dest.SigType, dm.Dest.Sig, in[:n-len(dm.Sig)], dm.Sig)
		return verdict(c, r, "LeaseSet.Verify", success, auth, genuine, true, in, derr)
	case "ls2":
		m, dk, outerKey := c.LS2.Build()
		if sig, ok := wrongPrefix(outerKey, m.SignedPart(), true, c.Prefix); c.SigMode == 4 && ok {
			m.Sig = sig
			r.Class(fmt.Sprintf("ls2:signed-under-wrong-prefix-%d,flags=%d", c.Prefix, m.Flags&6))
		} else if c.SigMode == 3 && m.Header.Offline != nil && dk != nil {
			m.Sig = dk.Sign(m.SignedPart())
			r.Class("ls2:signed-by-destination-key-despite-transient")
		} else if c.SigMode != 0 {
			m.Sig = attackerSig(m.OuterSigType(), c.LS2.Header.Dest.KeySeed, m.SignedPart(), c.SigMode)
		}
		orig := orLib(c, r, m.Encode())
		base, tampered := tamper(c, orig)
		if tampered {
			genuine = false
			r.Class(fmt.Sprintf("ls2:mapping-tampered,kind=%d", c.Tamper[1]))
		}
		in = applyEdits(base, c.Edits)
		warmGenuine(c, r, orig, in)
		ls, rem, err := lease_set2.ReadLeaseSet2(in)
		if err != nil {
			r.Class("ls2:unparseable")
			return nil
		}
		success := ls.Verify() == nil
		cons := in[:len(in)-len(rem)]
		dm, n, derr := model.DecodeLS2(cons)
		auth := derr == nil && n == len(cons) && headerAuthentic(dm.Header, 3, cons, dm.Sig)
		if c.LS2.Header.Offline != nil {
			r.Class("ls2:offline")
			genuine = genuine && c.LS2.Header.Offline.Forge == 0
		}
		return verdict(c, r, "LeaseSet2.Verify", success, auth, genuine, true, in, derr)
	case "meta":
		m, dk, outerKey := c.Meta.Build()
		if sig, ok := wrongPrefix(outerKey, m.SignedPart(), true, c.Prefix); c.SigMode == 4 && ok {
			m.Sig = sig
			r.Class("meta:signed-under-wrong-prefix")
		} else if c.SigMode == 3 && m.Header.Offline != nil && dk != nil {
			m.Sig = dk.Sign(m.SignedPart())
			r.Class("meta:signed-by-destination-key-despite-transient")
		} else if c.SigMode != 0 {
			m.Sig = attackerSig(m.OuterSigType(), c.Meta.Header.Dest.KeySeed, m.SignedPart(), c.SigMode)
		}
		orig := m.Encode()
		base, tampered := tamper(c, orig)
		if tampered {
			genuine = false
			r.Class(fmt.Sprintf("meta:mapping-tampered,kind=%d", c.Tamper[1]))
		}
		in = applyEdits(base, c.Edits)
		warmGenuine(c, r, orig, in)
		ls, rem, err := meta_leaseset.ReadMetaLeaseSet(in)
		if err != nil {
			r.Class("meta:unparseable")
			return nil
		}
		success := ls.Verify() == nil
		cons := in[:len(in)-len(rem)]
		dm, n, derr := model.DecodeMetaLS(cons)
		auth := derr == nil && n == len(cons) && headerAuthentic(dm.Header, 7, cons, dm.Sig)
		if c.Meta.Header.Offline != nil {
			r.Class("meta:offline")
			genuine = genuine && c.Meta.Header.Offline.Forge == 0
		}
		return verdict(c, r, "MetaLeaseSet.Verify", success, auth, genuine, true, in, derr)
	case "els":
		m, dk, outerKey := c.ELS.Build()
		if sig, ok := wrongPrefix(outerKey, m.SignedPart(), true, c.Prefix); c.SigMode == 4 && ok {
			m.Sig = sig
			r.Class("els:signed-under-wrong-prefix")
		} else if c.SigMode == 3 && m.Offline != nil && dk != nil {
			m.Sig = dk.Sign(m.SignedPart())
			r.Class("els:signed-by-blinded-key-despite-transient")
		} else if c.SigMode != 0 {
			m.Sig = attackerSig(m.OuterSigType(), c.ELS.KeySeed, m.SignedPart(), c.SigMode)
		}
		orig := orLib(c, r, m.Encode())
		in = applyEdits(orig, c.Edits)
		warmGenuine(c, r, orig, in)
		ls, rem, err := encrypted_leaseset.ReadEncryptedLeaseSet(in)
		if err != nil {
			r.Class("els:unparseable")
			return nil
		}
		success := ls.Verify() == nil
		cons := in[:len(in)-len(rem)]
		dm, n, derr := model.DecodeELS(cons)
		auth := false
		if derr == nil && n == len(cons) {
			msg := append([]byte{5}, cons[:len(cons)-len(dm.Sig)]...)
			if dm.Offline != nil {
				auth = model.Verify(dm.Offline.TType, dm.Offline.TKey, msg, dm.Sig) && offlineAuthentic(dm.Offline, dm.SigType, dm.Blinded)
			} else {
				auth = model.Verify(dm.SigType, dm.Blinded, msg, dm.Sig)
			}
		}
		if c.ELS.Offline != nil {
			r.Class("els:offline")
			genuine = genuine && c.ELS.Offline.Forge == 0
		}
		return verdict(c, r, "EncryptedLeaseSet.Verify", success, auth, genuine, true, in, derr)
	case "offline":
		// standalone offline signature of an Ed25519-family destination
		id, dk := c.LS2.Header.Dest.Build()
		off, _ := c.LS2.Header.Offline.Build(id.SigType, dk)
		in = applyEdits(off.Encode(), c.Edits)
		o, rem, err := offline_signature.ReadOfflineSignature(in, uint16(id.SigType))
		if err != nil {
			r.Class("offline:unparseable")
			return nil
		}
		key := id.Sig
		switch c.OffKey {
		case 1:
			key = model.NewSignKey(id.SigType, c.LS2.Header.Dest.KeySeed^0x77).Pub
		case 2:
			key = append(append([]byte{}, key...), 0)
		}
		ok, verr := o.VerifySignature(key)
		success := ok && verr == nil
		cons := in[:len(in)-len(rem)]
		dm, n, derr := model.DecodeOffline(cons, id.SigType)
		auth := derr == nil && n == len(cons) && model.Verify(id.SigType, key, dm.SignedPart(), dm.Sig)
		genuine = genuine && c.LS2.Header.Offline.Forge == 0 && c.OffKey == 0
		return verdict(c, r, "OfflineSignature.VerifySignature", success, auth, genuine, id.SigType == 7 || id.SigType == 11, in, derr)
	}
	return nil
}

// warmDonor: when the case transplants an offline block (Forge == 2), the
// genuine structure of the donor identity - carrying the byte-identical block -
// is parsed and verified first, as a relying party would have seen it earlier.
// A verifier that remembers "this offline block was fine" without binding it to
// the identity is exposed by this two-step history.
func warmDonor(c Case, r *ev.Rec) {
	donorSeed := func(o *gen.OfflineSpec) uint64 { return o.Seed ^ 0xbad }
	switch c.Kind {
	case "ls2":
		if o := c.LS2.Header.Offline; o != nil && o.Forge == 2 {
			d := *c.LS2
			od := *o
			od.Forge = 0
			d.Header.Offline = &od
			d.Header.Dest.KeySeed, d.Header.Dest.NullCert = donorSeed(o), false
			m, _, _ := d.Build()
			if ls, _, err := lease_set2.ReadLeaseSet2(m.Encode()); err == nil && ls.Verify() == nil {
				r.Class("ls2:donor-verified-first")
			}
		}
	case "meta":
		if o := c.Meta.Header.Offline; o != nil && o.Forge == 2 {
			d := *c.Meta
			od := *o
			od.Forge = 0
			d.Header.Offline = &od
			d.Header.Dest.KeySeed, d.Header.Dest.NullCert = donorSeed(o), false
			m, _, _ := d.Build()
			if ls, _, err := meta_leaseset.ReadMetaLeaseSet(m.Encode()); err == nil && ls.Verify() == nil {
				r.Class("meta:donor-verified-first")
			}
		}
	case "els":
		if o := c.ELS.Offline; o != nil && o.Forge == 2 {
			d := *c.ELS
			od := *o
			od.Forge = 0
			d.Offline = &od
			d.KeySeed = donorSeed(o)
			m, _, _ := d.Build()
			if ls, _, err := encrypted_leaseset.ReadEncryptedLeaseSet(m.Encode()); err == nil && ls.Verify() == nil {
				r.Class("els:donor-verified-first")
			}
		}
	}
}

// warmGenuine: before a derived (tampered, edited) encoding is judged, the genuine
// encoding it was derived from is parsed and verified in the same process - what a
// relying party has usually seen first. A verifier that remembers "this identity /
// this date was fine" is exposed by the forgery that follows.
func warmGenuine(c Case, r *ev.Rec, base, in []byte) {
	if c.SigMode != 0 || bytes.Equal(base, in) {
		return
	}
	ok := false
	switch c.Kind {
	case "ri":
		if v, _, err := router_info.ReadRouterInfo(append([]byte{}, base...)); err == nil {
			ok, _ = v.VerifySignature()
		}
	case "ls":
		if v, err := lease_set.ReadLeaseSet(append([]byte{}, base...)); err == nil {
			ok = v.Verify() == nil
		}
	case "ls2":
		if v, _, err := lease_set2.ReadLeaseSet2(append([]byte{}, base...)); err == nil {
			ok = v.Verify() == nil
		}
	case "meta":
		if v, _, err := meta_leaseset.ReadMetaLeaseSet(append([]byte{}, base...)); err == nil {
			ok = v.Verify() == nil
		}
	case "els":
		if v, _, err := encrypted_leaseset.ReadEncryptedLeaseSet(append([]byte{}, base...)); err == nil {
			ok = v.Verify() == nil
		}
	}
	if ok {
		r.Class(c.Kind + ":genuine-verified-before-the-forgery")
	}
}

func orLib(c Case, r *ev.Rec, modelBytes []byte) []byte {
	if b, ok := libBase(c); ok {
		r.Class(c.Kind + ":base-signed-by-library")
		return b
	}
	return modelBytes
}

func headerAuthentic(h model.Header, storeType byte, cons, sig []byte) bool {
	msg := append([]byte{storeType}, cons[:len(cons)-len(sig)]...)
	if h.Offline != nil {
		return model.Verify(h.Offline.TType, h.Offline.TKey, msg, sig) && offlineAuthentic(h.Offline, h.Dest.SigType, h.Dest.Sig)
	}
	return model.Verify(h.Dest.SigType, h.Dest.Sig, msg, sig)
}

// verdict applies the soundness oracle and the bookkeeping.
func verdict(c Case, r *ev.Rec, what string, success, authentic, genuine, expectVerifiable bool, in []byte, derr error) error {
	r.Class(c.Kind + ":parsed")
	if success && !authentic {
		return fmt.Errorf("%s reports success, but the independent check over the received bytes does not hold (strict decode error: %v)", what, derr)
	}
	if genuine {
		r.Class(c.Kind + ":genuine")
		if success {
			r.Class(c.Kind + ":genuine-verified")
		} else if authentic && expectVerifiable {
			r.Class(c.Kind + ":genuine-not-verified")
		}
		return nil
	}
	if success {
		r.Class(c.Kind + ":derived-still-verifies(authentic)")
	}
	r.NonTrivial(c, []byte(c.Kind), in)
	return nil
}

func editsG(t *rapid.T, n int, hot []int) [][3]int {
	var out [][3]int
	for i := 0; i < n; i++ {
		kind := rapid.SampledFrom([]int{0, 0, 0, 1, 1, 2, 2, 3, 4, 5, 6}).Draw(t, "ekind")
		var pos int
		switch rapid.IntRange(0, 3).Draw(t, "where") {
		case 0:
			pos = rapid.SampledFrom(hot).Draw(t, "hotpos")
		case 1:
			pos = -rapid.IntRange(1, 200).Draw(t, "tailpos")
		default:
			pos = rapid.IntRange(0, 2000).Draw(t, "pos")
		}
		val := rapid.SampledFrom([]int{0, 1, 2, 3, 5, 6, 7, 255, -1, -2, 128}).Draw(t, "val")
		out = append(out, [3]int{kind, pos, val})
	}
	return out
}

var hotOffsets = []int{0, 31, 32, 255, 256, 352, 383, 384, 385, 386, 387, 388, 389, 390, 391, 392, 393, 394, 395, 396, 397, 398, 399, 400, 401, 402, 403, 404, 405, 406, 407, 408, 409, 410, 420, 430, 440, 450, 460, 470, 480, 490, 500}

func genCase(t *rapid.T) Case {
	c := Case{Kind: rapid.SampledFrom([]string{"ri", "ls", "ls2", "ls2", "meta", "els", "els", "offline"}).Draw(t, "kind")}
	forge := func(o *gen.OfflineSpec) {
		if o != nil {
			o.Forge = rapid.SampledFrom([]int{0, 0, 1, 2}).Draw(t, "forge")
		}
	}
	switch c.Kind {
	case "ri":
		s := gen.RouterInfoG(t, "ri", []int{7, 7, 7, 0, 1, 2})
		c.RI = &s
	case "ls":
		s := gen.LeaseSetG(t, "ls")
		c.LS = &s
	case "ls2":
		s := gen.LS2G(t, "ls2", nil)
		if rapid.Bool().Draw(t, "forceoffline") && s.Header.Offline == nil {
			s.Header.Offline = gen.OfflineG(t, "off", nil)
		}
		forge(s.Header.Offline)
		c.LS2 = &s
	case "meta":
		s := gen.MetaG(t, "meta", nil)
		if rapid.Bool().Draw(t, "forceoffline") && s.Header.Offline == nil {
			s.Header.Offline = gen.OfflineG(t, "off", nil)
		}
		forge(s.Header.Offline)
		c.Meta = &s
	case "els":
		s := gen.ELSG(t, "els", nil)
		if s.InnerLen > 2000 {
			s.InnerLen = 600
		}
		if rapid.Bool().Draw(t, "forceoffline") && s.Offline == nil {
			s.Offline = gen.OfflineG(t, "off", nil)
		}
		forge(s.Offline)
		c.ELS = &s
	case "offline":
		s := gen.LS2Spec{Header: gen.HeaderG(t, "hdr", []int{7, 11, 7, 11, 0, 1}, nil)}
		if s.Header.Offline == nil {
			s.Header.Offline = gen.OfflineG(t, "off", nil)
		}
		forge(s.Header.Offline)
		c.LS2 = &s
		c.OffKey = rapid.SampledFrom([]int{0, 0, 1, 2}).Draw(t, "offkey")
	}
	c.SigMode = rapid.SampledFrom([]int{0, 0, 0, 1, 2, 3, 4}).Draw(t, "sigmode")
	if c.SigMode == 4 {
		c.Prefix = rapid.SampledFrom([]int{0, 1, 3, 5, 7, 2, 255}).Draw(t, "prefix")
	}
	c.LibSigned = rapid.IntRange(0, 2).Draw(t, "libsigned") == 0
	if (c.Kind == "ri" || c.Kind == "ls2" || c.Kind == "meta" || c.Kind == "ls") && rapid.IntRange(0, 3).Draw(t, "tamper") == 0 {
		c.Tamper = [2]int{rapid.IntRange(0, 40).Draw(t, "twhich"), rapid.IntRange(1, 19).Draw(t, "tkind")}
		if c.Tamper[1] >= 18 {
			c.Tamper[0] = rapid.IntRange(0, 100000).Draw(t, "twhich2")
		}
		if rapid.Bool().Draw(t, "tamperonly") {
			c.SigMode = 0
		}
	}
	if rapid.IntRange(0, 3).Draw(t, "edit") > 0 {
		c.Edits = editsG(t, rapid.IntRange(1, 3).Draw(t, "nedits"), hotOffsets)
	}
	return c
}

var prop = &ev.Prop[Case]{Sub: "soundness", Quick: 240000, Thorough: 2000000, Gen: genCase, Check: check}

func TestRegress(t *testing.T) { prop.Regress(t) }
func TestReplay(t *testing.T)  { prop.Replay(t) }
func TestProp(t *testing.T) {
	// the soundness oracle is vacuous for a kind whose genuine bases never verify
	for _, k := range []string{"ri", "ls", "ls2", "meta", "els", "offline"} {
		ev.R().Floor(k+":genuine-verified", 20)
	}
	for _, k := range []string{"ri", "ls", "ls2", "els"} {
		ev.R().Floor(k+":base-signed-by-library", 20)
	}
	ev.R().Floor("ls2:donor-verified-first", 20)
	ev.R().Floor("els:donor-verified-first", 20)
	ev.R().Floor("meta:donor-verified-first", 10)
	ev.R().Floor("ls:signed-by-revocation-key,no-leases", 20)
	ev.R().Floor("ls2:offline", 50)
	ev.R().Floor("els:offline", 50)
	ev.R().Floor("meta:offline", 50)
	prop.Run(t)
}
