// Package c03 decides property C03: stream framing - the remainder is a
// suffix, the consumed extent is the structure's declared extent, appended
// bytes change nothing, and no proper prefix of a completely consumed
// encoding is accepted.
package c03

import (
	"bytes"
	"fmt"
	"testing"

	"pgregory.net/rapid"

	"verif/internal/ev"
	"verif/internal/gen"
	"verif/internal/lib"
	"verif/internal/model"
)

const rule = "cases: (entry point, type argument, bytes w) from the same three sources as C01 (model encodings, structure-aware mutations, arbitrary bytes) over all 43 entry points, x 5 appended strings per accepted w (one zero byte, 0xff, a copy of w's own head, 7 and 300 pseudo-random bytes; for one w in sixteen also ~2^16 or ~2^17 pseudo-random and zero bytes) x every cut point k < len(w) when w was consumed completely (all k for len(w) <= 1200; otherwise the last 600, every 37th, and +-1 around each 64-byte boundary). Oracles: remainder is literally a suffix of the input; consumed extent equals the independent model's extent whenever the model decodes w; parse(w++x) accepted with the same consumed count and the same serialisation; parse(w[:k]) not accepted. In addition the fixed corpus of well-formed encodings of every entry point is parsed by 16 goroutines at once and must frame exactly as it does alone. Non-trivial: w accepted; distinct by (entry, type, w)."

func TestMain(m *testing.M) { ev.Main(m, "C03", rule) }

type Case = gen.Input

func isSuffix(in, rem []byte) bool {
	return len(rem) <= len(in) && bytes.Equal(in[len(in)-len(rem):], rem)
}

func cutPoints(n int) []int {
	var ks []int
	if n <= 1200 {
		for k := 0; k < n; k++ {
			ks = append(ks, k)
		}
		return ks
	}
	seen := map[int]bool{}
	add := func(k int) {
		if k >= 0 && k < n && !seen[k] {
			seen[k] = true
			ks = append(ks, k)
		}
	}
	for k := n - 600; k < n; k++ {
		add(k)
	}
	for k := 0; k < n; k += 37 {
		add(k)
	}
	for k := 0; k < n; k += 64 {
		add(k - 1)
		add(k)
		add(k + 1)
	}
	for k := 380; k < 400; k++ {
		add(k)
	}
	return ks
}

func check(c Case, r *ev.Rec) error {
	e := lib.ByName(c.Entry)
	if e == nil {
		return nil
	}
	in := c.Bytes()
	parse := func(b []byte) lib.Result { return e.Parse(append(make([]byte, 0, len(b)), b...), c.Typ) }
	res := parse(in)
	r.Class("source:" + c.Source)
	// (i) remainder is a suffix - also on the error paths
	if e.HasRem && !isSuffix(in, res.Rem) {
		return fmt.Errorf("%s (accepted=%v): remainder of %d bytes is not a suffix of the %d-byte input", e.Name, res.Accepted, len(res.Rem), len(in))
	}
	if !res.Accepted {
		r.Class("rejected")
		return nil
	}
	r.Class("accepted:" + e.Name)
	consumed := len(in) - len(res.Rem)
	mext, mok := lib.ModelExtent(e.Name, in, c.Typ)
	if !e.HasRem {
		consumed = len(in)
		if !e.Exact { // ReadLeaseSet: extent from the model, else from the serialisation
			if mok {
				consumed = mext
			} else {
				consumed = min(len(res.Serial), len(in))
			}
		}
	}
	// (ii) declared extent
	if e.HasRem && mok && mext != consumed {
		return fmt.Errorf("%s consumed %d bytes; the structure's declared extent is %d", e.Name, consumed, mext)
	}
	if mok {
		r.Class("model-extent-compared")
	}
	// (iii) append-invariance
	if !e.Exact {
		head := in
		if len(head) > 48 {
			head = head[:48]
		}
		appended := [][]byte{{0}, {0xff}, head, model.Fill(7, uint64(len(in))+3), model.Fill(300, uint64(len(in))+5)}
		if sum := ev.Sum64(in); sum%16 == 0 {
			// what follows a structure in a stream can be long: lengths around 2^16 and 2^17
			n := []int{65532, 65533, 65535, 65536, 65537, 70000, 131072, 131073}[(sum/16)%8]
			appended = append(appended, model.Fill(n-len(in)%7, sum), make([]byte, n))
			r.Class("long-suffix")
		}
		for i, x := range appended {
			if len(x) == 0 {
				continue
			}
			w2 := append(append(make([]byte, 0, len(in)+len(x)), in...), x...)
			r2 := parse(w2)
			r.Eval()
			if !r2.Accepted {
				return fmt.Errorf("%s accepts w (%d bytes) but rejects w ++ x%d (%d appended bytes): %v", e.Name, len(in), i, len(x), r2.Err)
			}
			if e.HasRem {
				if !isSuffix(w2, r2.Rem) {
					return fmt.Errorf("%s: remainder after appending is not a suffix", e.Name)
				}
				if c2 := len(w2) - len(r2.Rem); c2 != consumed {
					return fmt.Errorf("%s consumed %d bytes of w but %d bytes of w ++ x%d", e.Name, consumed, c2, i)
				}
			}
			if !bytes.Equal(r2.Serial, res.Serial) {
				return fmt.Errorf("%s: value changes when %d bytes are appended (serialisations differ)", e.Name, len(x))
			}
		}
	}
	// (iv) no accepted proper prefix of a completely consumed encoding
	complete := consumed == len(in)
	if complete && !e.Exact {
		r.Class("complete")
		for _, k := range cutPoints(len(in)) {
			rk := parse(in[:k])
			r.Eval()
			if rk.Accepted {
				return fmt.Errorf("%s consumes all %d bytes of w, yet accepts the proper prefix w[:%d] (consuming %d)", e.Name, len(in), k, k-len(rk.Rem))
			}
		}
	}
	if complete && e.Exact {
		for _, k := range cutPoints(len(in)) {
			if k == 0 {
				continue
			}
			if e.Name == "data.NewIntegerFromBytes" {
				break // any 1..8 bytes are an Integer: prefixes are legitimately accepted
			}
			if rk := parse(in[:k]); rk.Accepted {
				return fmt.Errorf("%s accepts the proper prefix w[:%d] of an exact-length input of %d bytes", e.Name, k, len(in))
			}
		}
	}
	r.NonTrivial(c, []byte(e.Name), []byte{byte(c.Typ), byte(c.Typ >> 8)}, in)
	return nil
}

// TestConcurrentFraming: the framing of one input does not depend on what other
// goroutines parse at the same time. The fixed corpus of well-formed encodings of
// every entry point (plus each with 9 appended bytes) is parsed sequentially, then
// by 16 goroutines at once, each in its own order, 12 rounds; acceptance, consumed
// count and serialisation must be those of the sequential run.
func TestConcurrentFraming(t *testing.T) {
	ev.Enumerate(t, "fixed-corpus-parsed-by-16-goroutines", false, func(_, _ int, r *ev.Rec) error {
		type item struct {
			e   *lib.Entry
			in  []byte
			typ int
			acc bool
			rem int
			ser []byte
		}
		var items []item
		for _, n := range lib.Names() {
			e := lib.ByName(n)
			for _, fi := range gen.FixedInputs(n) {
				for _, sfx := range [][]byte{nil, model.Fill(9, 4)} {
					if e.Exact && sfx != nil {
						continue
					}
					in := append(append([]byte{}, fi.Bytes()...), sfx...)
					res := e.Parse(append([]byte{}, in...), fi.Typ)
					items = append(items, item{e, in, fi.Typ, res.Accepted, len(res.Rem), res.Serial})
				}
			}
		}
		if len(items) < 60 {
			return fmt.Errorf("corpus too small (%d)", len(items))
		}
		const G = 16
		errs := make(chan error, G)
		start := make(chan struct{})
		for g := 0; g < G; g++ {
			go func(g int) {
				<-start
				for round := 0; round < 12; round++ {
					for k := range items {
						it := items[(k*(2*g+1)+g+round)%len(items)]
						res := it.e.Parse(append([]byte{}, it.in...), it.typ)
						if res.Accepted != it.acc || len(res.Rem) != it.rem || !bytes.Equal(res.Serial, it.ser) {
							errs <- fmt.Errorf("%s on a %d-byte input: alone accepted=%v remainder=%d; while 15 other goroutines parse other data accepted=%v remainder=%d (err %v)", it.e.Name, len(it.in), it.acc, it.rem, res.Accepted, len(res.Rem), res.Err)
							return
						}
					}
				}
				errs <- nil
			}(g)
		}
		close(start)
		var first error
		for g := 0; g < G; g++ {
			if err := <-errs; err != nil && first == nil {
				first = err
			}
		}
		r.EvalN(G * 12 * len(items))
		if first != nil {
			return first
		}
		r.Class("concurrent-framing-rounds")
		return nil
	})
}

var weighted = lib.WeightedNames()

var prop = &ev.Prop[Case]{Sub: "framing", Quick: 24000, Thorough: 1200000,
	Gen:   func(t *rapid.T) Case { return gen.InputG(t, weighted) },
	Check: check}

func TestRegress(t *testing.T) { prop.Regress(t) }
func TestReplay(t *testing.T)  { prop.Replay(t) }
func TestProp(t *testing.T) {
	for _, n := range lib.Names() {
		ev.R().Floor("accepted:"+n, 10)
	}
	ev.R().Floor("complete", 1000)
	ev.R().Floor("model-extent-compared", 1000)
	prop.Run(t)
}
