// Package c03 decides property C03: stream framing - the remainder is a
// suffix, the consumed extent is the structure's declared extent, appended
// bytes change nothing, and no proper prefix of a completely consumed
// encoding is accepted.
package c03

import (
	"bytes"
	"fmt"
	"testing"

	"pgregory.net/rapid"

	"verif/internal/ev"
	"verif/internal/gen"
	"verif/internal/lib"
	"verif/internal/model"
)

const rule = "cases: (entry point, type argument, bytes w) from the same three sources as C01 (model encodings, structure-aware mutations, arbitrary bytes) over all 43 entry points, x 5 appended strings per accepted w (one zero byte, 0xff, a copy of w's own head, 7 and 300 pseudo-random bytes) x every cut point k < len(w) when w was consumed completely (all k for len(w) <= 1200; otherwise the last 600, every 37th, and +-1 around each 64-byte boundary). Oracles: remainder is literally a suffix of the input; consumed extent equals the independent model's extent whenever the model decodes w; parse(w++x) accepted with the same consumed count and the same serialisation; parse(w[:k]) not accepted. Non-trivial: w accepted; distinct by (entry, type, w)."

func TestMain(m *testing.M) { ev.Main(m, "C03", rule) }

type Case = gen.Input

func isSuffix(in, rem []byte) bool {
	return len(rem) <= len(in) && bytes.Equal(in[len(in)-len(rem):], rem)
}

func cutPoints(n int) []int {
	var ks []int
	if n <= 1200 {
		for k := 0; k < n; k++ {
			ks = append(ks, k)
		}
		return ks
	}
	seen := map[int]bool{}
	add := func(k int) {
		if k >= 0 && k < n && !seen[k] {
			seen[k] = true
			ks = append(ks, k)
		}
	}
	for k := n - 600; k < n; k++ {
		add(k)
	}
	for k := 0; k < n; k += 37 {
		add(k)
	}
	for k := 0; k < n; k += 64 {
		add(k - 1)
		add(k)
		add(k + 1)
	}
	for k := 380; k < 400; k++ {
		add(k)
	}
	return ks
}

func check(c Case, r *ev.Rec) error {
	e := lib.ByName(c.Entry)
	if e == nil {
		return nil
	}
	in := c.Bytes()
	parse := func(b []byte) lib.Result { return e.Parse(append(make([]byte, 0, len(b)), b...), c.Typ) }
	res := parse(in)
	r.Class("source:" + c.Source)
	// (i) remainder is a suffix - also on the error paths
	if e.HasRem && !isSuffix(in, res.Rem) {
		return fmt.Errorf("%s (accepted=%v): remainder of %d bytes is not a suffix of the %d-byte input", e.Name, res.Accepted, len(res.Rem), len(in))
	}
	if !res.Accepted {
		r.Class("rejected")
		return nil
	}
	r.Class("accepted:" + e.Name)
	consumed := len(in) - len(res.Rem)
	mext, mok := lib.ModelExtent(e.Name, in, c.Typ)
	if !e.HasRem {
		consumed = len(in)
		if !e.Exact { // ReadLeaseSet: extent from the model, else from the serialisation
			if mok {
				consumed = mext
			} else {
				consumed = min(len(res.Serial), len(in))
			}
		}
	}
	// (ii) declared extent
	if e.HasRem && mok && mext != consumed {
		return fmt.Errorf("%s consumed %d bytes; the structure's declared extent is %d", e.Name, consumed, mext)
	}
	if mok {
		r.Class("model-extent-compared")
	}
	// (iii) append-invariance
	if !e.Exact {
		head := in
		if len(head) > 48 {
			head = head[:48]
		}
		for i, x := range [][]byte{{0}, {0xff}, head, model.Fill(7, uint64(len(in))+3), model.Fill(300, uint64(len(in))+5)} {
			if len(x) == 0 {
				continue
			}
			w2 := append(append(make([]byte, 0, len(in)+len(x)), in...), x...)
			r2 := parse(w2)
			r.Eval()
			if !r2.Accepted {
				return fmt.Errorf("%s accepts w (%d bytes) but rejects w ++ x%d (%d appended bytes): %v", e.Name, len(in), i, len(x), r2.Err)
			}
			if e.HasRem {
				if !isSuffix(w2, r2.Rem) {
					return fmt.Errorf("%s: remainder after appending is not a suffix", e.Name)
				}
				if c2 := len(w2) - len(r2.Rem); c2 != consumed {
					return fmt.Errorf("%s consumed %d bytes of w but %d bytes of w ++ x%d", e.Name, consumed, c2, i)
				}
			}
			if !bytes.Equal(r2.Serial, res.Serial) {
				return fmt.Errorf("%s: value changes when %d bytes are appended (serialisations differ)", e.Name, len(x))
			}
		}
	}
	// (iv) no accepted proper prefix of a completely consumed encoding
	complete := consumed == len(in)
	if complete && !e.Exact {
		r.Class("complete")
		for _, k := range cutPoints(len(in)) {
			rk := parse(in[:k])
			r.Eval()
			if rk.Accepted {
				return fmt.Errorf("%s consumes all %d bytes of w, yet accepts the proper prefix w[:%d] (consuming %d)", e.Name, len(in), k, k-len(rk.Rem))
			}
		}
	}
	if complete && e.Exact {
		for _, k := range cutPoints(len(in)) {
			if k == 0 {
				continue
			}
			if e.Name == "data.NewIntegerFromBytes" {
				break // any 1..8 bytes are an Integer: prefixes are legitimately accepted
			}
			if rk := parse(in[:k]); rk.Accepted {
				return fmt.Errorf("%s accepts the proper prefix w[:%d] of an exact-length input of %d bytes", e.Name, k, len(in))
			}
		}
	}
	r.NonTrivial(c, []byte(e.Name), []byte{byte(c.Typ), byte(c.Typ >> 8)}, in)
	return nil
}

var weighted = lib.WeightedNames()

var prop = &ev.Prop[Case]{Sub: "framing", Quick: 24000, Thorough: 1200000,
	Gen:   func(t *rapid.T) Case { return gen.InputG(t, weighted) },
	Check: check}

func TestRegress(t *testing.T) { prop.Regress(t) }
func TestReplay(t *testing.T)  { prop.Replay(t) }
func TestProp(t *testing.T) {
	for _, n := range lib.Names() {
		ev.R().Floor("accepted:"+n, 10)
	}
	ev.R().Floor("complete", 1000)
	ev.R().Floor("model-extent-compared", 1000)
	prop.Run(t)
}
