// Package c01 decides property C01: re-serialising any accepted wire input
// reproduces exactly the bytes the parser consumed.
package c01

import (
	"bytes"
	"fmt"
	"testing"

	"pgregory.net/rapid"

	"verif/internal/ev"
	"verif/internal/gen"
	"verif/internal/lib"
	"verif/internal/model"
)

const rule = "cases: (entry point, type argument, bytes) over all 43 parser entry points of DESIGN Appendix A; bytes are model encodings of generated values (every supported key-type pair, NULL/KEY certificates with excess payload, 0..16 leases/keys/entries, offline blocks, odd mappings), 1-2 structure-aware mutations of those (length/count/type fields, truncation, insertion, deletion, appended data) or arbitrary bytes. Oracle: round trip - if the parser accepts, serialise(value) must equal input minus remainder, also on the second call - after other well-formed data went through the same parser - and (a quarter of the cases) after every argument-free exported method of the value has been called once (for ReadLeaseSet, which returns no remainder: the extent the independent model decodes, else a prefix of the input). Non-trivial: accepted and (input mutated/suffixed/arbitrary, or structure with a variable-length part); distinct by (entry, consumed bytes)."

func TestMain(m *testing.M) { ev.Main(m, "C01", rule) }

type Case = gen.Input

func clip(b []byte) []byte {
	if len(b) > 120 {
		return b[:120]
	}
	return b
}

func firstDiff(a, b []byte) int {
	n := min(len(a), len(b))
	for i := 0; i < n; i++ {
		if a[i] != b[i] {
			return i
		}
	}
	return n
}

func check(c Case, r *ev.Rec) error {
	e := lib.ByName(c.Entry)
	if e == nil {
		return nil
	}
	in := c.Bytes()
	res := e.Parse(append(make([]byte, 0, len(in)), in...), c.Typ)
	r.Class("entry:" + e.Name)
	r.Class("source:" + c.Source)
	if !res.Accepted {
		r.Class("rejected")
		return nil
	}
	r.Class("accepted")
	r.Class("accepted:" + e.Name)
	if res.SerErr != nil {
		return fmt.Errorf("%s accepted the input but the value does not serialise: %v", e.Name, res.SerErr)
	}
	var consumed []byte
	switch {
	case e.HasRem:
		if len(res.Rem) > len(in) || !bytes.Equal(in[len(in)-len(res.Rem):], res.Rem) {
			return fmt.Errorf("%s: remainder (%d bytes) is not a suffix of the input (%d bytes)", e.Name, len(res.Rem), len(in))
		}
		consumed = in[:len(in)-len(res.Rem)]
	case e.Exact:
		consumed = in
	default: // lease_set.ReadLeaseSet
		if _, n, err := model.DecodeLeaseSet(in); err == nil {
			consumed = in[:n]
		} else if len(res.Serial) <= len(in) {
			consumed = in[:len(res.Serial)]
		} else {
			consumed = in
		}
	}
	if !bytes.Equal(res.Serial, consumed) {
		d := firstDiff(res.Serial, consumed)
		return fmt.Errorf("%s (typ %d): serialisation differs from the consumed bytes: consumed %d bytes, serialised %d bytes, first difference at offset %d\n consumed[%d:] % x\n serial  [%d:] % x",
			e.Name, c.Typ, len(consumed), len(res.Serial), d, d, clip(consumed[d:]), d, clip(res.Serial[min(d, len(res.Serial)):]))
	}
	if err := again(e, c, res, consumed, r); err != nil {
		return err
	}
	variable := e.Group != "prim" && e.Group != "session" && e.Group != "lease"
	if c.Source != "valid" || c.Mut != "" || variable {
		r.NonTrivial(c, []byte(e.Name), consumed)
	}
	return nil
}

// again: the property holds for every serialisation of the value, not only the
// first one - a second call, and (for a quarter of the cases, chosen by the input)
// a call after every argument-free exported method of the value and of the library
// values it returns has been invoked once. The value's own Bytes/Data method is
// found by reflection and only used when its first answer equals the entry's.
func again(e *lib.Entry, c Case, res lib.Result, consumed []byte, r *ev.Rec) error {
	if res.Value == nil {
		return nil
	}
	b, err, ok := lib.Serialise(res.Value)
	if !ok || err != nil || !bytes.Equal(b, res.Serial) {
		r.Class("second-serialisation:not-applicable")
		return nil
	}
	// other data goes through the same parser in between (a parser that hands out
	// pooled or shared storage is exposed by the next parse)
	for _, fi := range fixedFor(e.Name) {
		e.Parse(fi.Bytes(), fi.Typ)
	}
	b2, err, _ := lib.Serialise(res.Value)
	if err != nil || !bytes.Equal(b2, consumed) {
		return fmt.Errorf("%s (typ %d): the second serialisation of the same value differs from the consumed bytes (%d vs %d bytes, err %v, first difference at %d)", e.Name, c.Typ, len(b2), len(consumed), err, firstDiff(b2, consumed))
	}
	r.Class("second-serialisation")
	if len(consumed) > 4096 || len(consumed)%4 != 1 {
		return nil
	}
	sw := &lib.Sweep{MaxDepth: 1}
	sw.Run(e.Name+"()", res.Value)
	b3, err, _ := lib.Serialise(res.Value)
	if err != nil || !bytes.Equal(b3, consumed) {
		return fmt.Errorf("%s (typ %d): after %d argument-free accessor calls the value serialises differently from the bytes it was parsed from (%d vs %d bytes, err %v, first difference at %d)", e.Name, c.Typ, sw.Calls, len(b3), len(consumed), err, firstDiff(b3, consumed))
	}
	r.Class("serialisation-after-accessors")
	return nil
}

var fixedCache = map[string][]gen.Input{}

func fixedFor(entry string) []gen.Input {
	if f, ok := fixedCache[entry]; ok {
		return f
	}
	f := gen.FixedInputs(entry)
	if len(f) > 2 {
		f = f[:2]
	}
	fixedCache[entry] = f
	return f
}

var weighted = lib.WeightedNames()

var prop = &ev.Prop[Case]{Sub: "roundtrip", Quick: 800000, Thorough: 12000000,
	Gen:   func(t *rapid.T) Case { return gen.InputG(t, weighted) },
	Check: check}

func TestRegress(t *testing.T) { prop.Regress(t) }
func TestReplay(t *testing.T)  { prop.Replay(t) }
func TestProp(t *testing.T) {
	for _, n := range lib.Names() { // every entry point must have accepted inputs, else its round trip was never evaluated
		ev.R().Floor("accepted:"+n, 40)
	}
	ev.R().Floor("second-serialisation", 1000)
	ev.R().Floor("serialisation-after-accessors", 200)
	prop.Run(t)
}

// FuzzRoundTrip: coverage-guided bytes for every entry point. Byte 0 picks
// the entry, byte 1 the type argument, the rest is the input.
func FuzzRoundTrip(f *testing.F) {
	names := lib.Names()
	for i, n := range names {
		f.Add([]byte{byte(i), 7})
		for _, in := range gen.FixedInputs(n) { // seed corpus: well-formed encodings
			f.Add(append([]byte{byte(i), byte(in.Typ)}, in.Bytes()...))
		}
	}
	prop.Fuzz(f, func(b []byte) (Case, bool) {
		if len(b) < 2 || len(b) > 70000 {
			return Case{}, false
		}
		return Case{Entry: names[int(b[0])%len(names)], Typ: int(b[1]), Hex: ev.H(b[2:]), Source: "fuzz"}, true
	})
}

// notParsers: exported functions taking a []byte first that are not parsers of
// a wire structure (covered by C04's extra table or by C12/C13).
var notParsers = map[string]bool{
	"key_certificate.ConstructSigningPublicKeyByType": true,
	"data.DecodeIntN": true, "data.HashData": true, "data.ReadMappingValues": true,
	"base32.EncodeToString": true, "base32.EncodeToStringNoPadding": true, "base32.EncodeToStringSafe": true,
	"base64.EncodeToString": true, "base64.EncodeToStringSafe": true,
}

// TestEntryTableCoversRepo: every exported function of /repo that takes a
// []byte first is either in the parser table or in the list above. A failure
// carries no VIOLATION line, so the driver reports it as inconclusive.
func TestEntryTableCoversRepo(t *testing.T) {
	have := map[string]bool{}
	for _, n := range lib.Names() {
		have[n] = true
	}
	for _, n := range scannedByteFuncs {
		if !have[n] && !notParsers[n] {
			t.Errorf("exported function %s takes a []byte but is not in the parser table: the sweep over 'every parser' does not cover it", n)
		}
	}
	if len(scannedByteFuncs) < 40 {
		t.Errorf("scan of /repo found only %d byte-consuming functions", len(scannedByteFuncs))
	}
}
