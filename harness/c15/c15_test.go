// Package c15 decides property C15: expiry arithmetic is exact over the whole
// range of the wire fields.
package c15

import (
	"bytes"
	"fmt"
	"math"
	"math/big"
	"testing"
	"time"

	"github.com/go-i2p/common/data"
	"github.com/go-i2p/common/encrypted_leaseset"
	"github.com/go-i2p/common/lease"
	"github.com/go-i2p/common/lease_set"
	"github.com/go-i2p/common/lease_set2"
	"github.com/go-i2p/common/meta_leaseset"
	"github.com/go-i2p/common/offline_signature"
	"github.com/go-i2p/common/router_info"
	"pgregory.net/rapid"

	"verif/internal/ev"
	"verif/internal/gen"
	"verif/internal/libbuild"
	"verif/internal/model"
)

const rule = "cases: (published, offset) over boundaries {0,1,2^31-1,2^31,2^32-1} x {0,1,65535} (all 15 pairs every run) and uniform u32 x u16, carried by LeaseSet2, MetaLeaseSet and EncryptedLeaseSet encodings, half of them with an offline block whose transient key expires before, at or after the structure does; Lease end dates (ms) below 2^63 incl. 9223372036854/5 (the UnixNano limit); Lease2 seconds over u32 and constructor times outside [0,2^32-1] (negative, 2^32, year 2262+, sub-second fractions, +-2^k +- delta up to the int64 limits, and second counts whose product with 10^3, 10^6 or 10^9 wraps modulo 2^64 into the 32-bit range, Go's zero time.Time 0001-01-01 and its neighbours, year 0 and year 9999/10000); the same second counts handed to NewDateFromUnix and, as milliseconds, to NewDateFromMillis over the whole int64 range (half of the uniform draws beyond MaxInt64/1000, where s*1000 wraps to either sign); offline expiry u32; LeaseSets of 1..16 leases with arbitrary, repeated and boundary dates in random order; expiry one day before / after the start of the run for seven structure kinds, and any absolute 32-bit expiry at least a day away from now (uniform, and the landmarks 2^31, 2^32-1, now +- 2^31). Times handed to constructors are expressed in UTC and three other locations. Oracle: math/big - ExpirationTime().Unix() = published+offset (up to 2^32+65534, no wrap), exact second<->millisecond conversions (Lease / Date accessors, NewLease, DateFromTime, NewDateFromMillis, NewDateFromUnix, the published date of NewRouterInfo, over the whole range below 2^63 ms), a date conversion that returns without an error returns the exact count and otherwise (negative, or >= 2^63 ms) an error, NewLease2 rejects out-of-range instead of wrapping, Newest/OldestExpiration are members of the leases and bound all others, IsExpired true at now-86400 s and false at now+86400 s. Non-trivial: published+offset crosses 2^31 or 2^32, a date beyond 2^31 s, or a lease set with >= 2 distinct dates; distinct by field values."

var now time.Time

func TestMain(m *testing.M) {
	now = time.Now()
	ev.Main(m, "C15", rule)
}

type Case struct {
	Kind      string   `json:"kind"` // header | lease | lease2 | offline | extremes | expired
	Published uint32   `json:"published,omitempty"`
	Offset    uint16   `json:"offset,omitempty"`
	Ms        uint64   `json:"ms,omitempty"`
	Secs      int64    `json:"secs,omitempty"`
	Nanos     int64    `json:"nanos,omitempty"`
	Dates     []uint64 `json:"dates,omitempty"`
	Delta     int64    `json:"delta,omitempty"`           // expired: seconds relative to the start of the run
	Off       uint32   `json:"offline_expires,omitempty"` // header: the structures carry an offline block whose transient key expires then (0: no block)
	At        uint32   `json:"at,omitempty"`              // expired: absolute expiry (seconds) instead of Delta; skipped when within a day of now
}

func headerBytes(kind string, published uint32, offset uint16, off ...uint32) []byte {
	var ob *gen.OfflineSpec
	if len(off) > 0 && off[0] != 0 {
		ob = &gen.OfflineSpec{Expires: off[0], TType: 7, Seed: 5}
	}
	dest := gen.IdentSpec{SigType: 7, EncType: 4, KeySeed: 3, PadSeed: 4}
	switch kind {
	case "ls2":
		s := gen.LS2Spec{Header: gen.HeaderSpec{Dest: dest, Published: published, Expires: offset, Offline: ob}, Keys: []gen.KeySpec{{Type: 4, Len: -1, Seed: 1}}, Leases: []gen.Lease2Spec{{Seed: 1, Tunnel: 1, End: 5}}}
		m, _, _ := s.Build()
		return m.Encode()
	case "meta":
		s := gen.MetaSpec{Header: gen.HeaderSpec{Dest: dest, Published: published, Expires: offset, Offline: ob}, Entries: []gen.MetaEntrySpec{{Seed: 1, Type: 3, Expires: published, Cost: 1}}}
		m, _, _ := s.Build()
		return m.Encode()
	}
	if offset == 0 {
		offset = 1 // the library documents expires >= 1 for EncryptedLeaseSet
	}
	s := gen.ELSSpec{SigType: 11, KeySeed: 2, Published: published, Expires: offset, InnerLen: 61, InnerSeed: 1, Offline: ob}
	m, _, _ := s.Build()
	return m.Encode()
}

func checkHeader(c Case, r *ev.Rec) error {
	sum := new(big.Int).Add(big.NewInt(int64(c.Published)), big.NewInt(int64(c.Offset)))
	type hv struct {
		name      string
		pub, exp  time.Time
		published uint32
		expires   uint16
		offset    uint16
	}
	var hs []hv
	ls, _, err := lease_set2.ReadLeaseSet2(headerBytes("ls2", c.Published, c.Offset, c.Off))
	if err != nil {
		return fmt.Errorf("ReadLeaseSet2: %v", err)
	}
	hs = append(hs, hv{"LeaseSet2", ls.PublishedTime(), ls.ExpirationTime(), ls.Published(), ls.Expires(), c.Offset})
	ml, _, err := meta_leaseset.ReadMetaLeaseSet(headerBytes("meta", c.Published, c.Offset, c.Off))
	if err != nil {
		return fmt.Errorf("ReadMetaLeaseSet: %v", err)
	}
	hs = append(hs, hv{"MetaLeaseSet", ml.PublishedTime(), ml.ExpirationTime(), ml.Published(), ml.Expires(), c.Offset})
	if e := ml.Entries()[0]; e.ExpiresTime().Unix() != int64(c.Published) || e.Expires() != c.Published {
		return fmt.Errorf("MetaLeaseSetEntry.ExpiresTime() = %d for %d", e.ExpiresTime().Unix(), c.Published)
	}
	eo := c.Offset
	if eo == 0 {
		eo = 1
	}
	el, _, err := encrypted_leaseset.ReadEncryptedLeaseSet(headerBytes("els", c.Published, c.Offset, c.Off))
	if err != nil {
		return fmt.Errorf("ReadEncryptedLeaseSet: %v", err)
	}
	hs = append(hs, hv{"EncryptedLeaseSet", el.PublishedTime(), el.ExpirationTime(), el.Published(), el.Expires(), eo})
	for _, h := range hs {
		want := new(big.Int).Add(big.NewInt(int64(c.Published)), big.NewInt(int64(h.offset)))
		if h.published != c.Published || h.expires != h.offset {
			return fmt.Errorf("%s: fields %d/%d, encoded %d/%d", h.name, h.published, h.expires, c.Published, h.offset)
		}
		if big.NewInt(h.pub.Unix()).Cmp(big.NewInt(int64(c.Published))) != 0 || h.pub.Nanosecond() != 0 {
			return fmt.Errorf("%s.PublishedTime() = %d s, field is %d", h.name, h.pub.Unix(), c.Published)
		}
		if big.NewInt(h.exp.Unix()).Cmp(want) != 0 || h.exp.Nanosecond() != 0 {
			return fmt.Errorf("%s.ExpirationTime() = %d s, published + offset = %s", h.name, h.exp.Unix(), want)
		}
		if _, off := h.exp.Zone(); off != 0 {
			return fmt.Errorf("%s.ExpirationTime() is not UTC", h.name)
		}
	}
	lim31, lim32 := big.NewInt(1<<31), big.NewInt(1<<32)
	if (int64(c.Published) < 1<<31 && sum.Cmp(lim31) >= 0) || sum.Cmp(lim32) >= 0 {
		r.Class("header:sum-crosses-2^31-or-2^32")
		r.NonTrivialStr(c, "header", fmt.Sprint(c.Published), fmt.Sprint(c.Offset))
	} else if c.Published >= 1<<31 {
		r.NonTrivialStr(c, "header", fmt.Sprint(c.Published), fmt.Sprint(c.Offset))
	}
	return nil
}

// zoneFor: the location a time.Time is expressed in is presentation; constructors
// must store the instant. Three of four cases use a location other than UTC.
func zoneFor(n uint64) *time.Location {
	switch n % 4 {
	case 1:
		return time.FixedZone("west", -11*3600-1800)
	case 2:
		return time.FixedZone("east", 13*3600+2700)
	case 3:
		return time.FixedZone("one", 3600)
	}
	return time.UTC
}

func checkLease(c Case, r *ev.Rec) error {
	ml := model.Lease{Tunnel: 7, EndMs: c.Ms}
	copy(ml.GW[:], model.Fill(32, 5))
	l, _, err := lease.ReadLease(ml.Encode())
	if err != nil {
		return err
	}
	d := l.Date()
	if !bytes.Equal(d.Bytes(), model.U64(c.Ms)) {
		return fmt.Errorf("Lease.Date() = %x for %d ms", d.Bytes(), c.Ms)
	}
	if c.Ms < 1<<63 {
		if got := l.Time().UnixMilli(); got != int64(c.Ms) {
			return fmt.Errorf("Lease.Time().UnixMilli() = %d for end date %d ms", got, c.Ms)
		}
		if got := d.Time().UnixMilli(); got != int64(c.Ms) {
			return fmt.Errorf("Lease.Date().Time().UnixMilli() = %d for %d ms", got, c.Ms)
		}
		nl, err := lease.NewLease(data.Hash(ml.GW), 7, time.UnixMilli(int64(c.Ms)).In(zoneFor(c.Ms)))
		if err != nil || !bytes.Equal(nl.Bytes(), ml.Encode()) {
			return fmt.Errorf("NewLease(UnixMilli(%d)) = %x (%v): end date is not exact", c.Ms, nl.Bytes()[36:], err)
		}
		dd, err := data.DateFromTime(l.Time().In(zoneFor(c.Ms + 1)))
		if err != nil || !bytes.Equal(dd.Bytes(), model.U64(c.Ms)) {
			return fmt.Errorf("DateFromTime(Lease.Time()) = %x for %d ms", dd.Bytes(), c.Ms)
		}
		// the explicit second <-> millisecond conversions of the date type
		dm, err := data.NewDateFromMillis(int64(c.Ms))
		if err != nil || dm == nil || !bytes.Equal(dm.Bytes(), model.U64(c.Ms)) {
			return fmt.Errorf("NewDateFromMillis(%d) = %v (%v): not the exact millisecond date", c.Ms, dm, err)
		}
		secs := int64(c.Ms / 1000)
		ds, err := data.NewDateFromUnix(secs)
		if err != nil || ds == nil || !bytes.Equal(ds.Bytes(), model.U64(uint64(secs)*1000)) {
			return fmt.Errorf("NewDateFromUnix(%d) = %v (%v): want %d ms exactly", secs, ds, err, uint64(secs)*1000)
		}
		if got := ds.Time().Unix(); got != secs {
			return fmt.Errorf("NewDateFromUnix(%d).Time().Unix() = %d", secs, got)
		}
		if got := dm.Time().UnixMilli(); got != int64(c.Ms) {
			return fmt.Errorf("NewDateFromMillis(%d).Time().UnixMilli() = %d", c.Ms, got)
		}
		// the published date of a RouterInfo is such a millisecond date: NewRouterInfo stores
		// the instant it is given, to the millisecond (one case in eight; signing costs)
		if c.Ms%8 == 3 && c.Ms > 0 {
			b, err := libbuild.RouterInfo(gen.RouterInfoSpec{Ident: gen.IdentSpec{SigType: 7, EncType: 4, KeySeed: 3, PadSeed: 4}, Published: c.Ms,
				Addrs: []gen.AddrSpec{{Cost: 1, Style: "4e54435032", Options: gen.Pairs{{"686f7374", "312e322e332e34"}}}}})
			if err != nil {
				return fmt.Errorf("NewRouterInfo(published %d ms): %v", c.Ms, err)
			}
			mri, _, err := model.DecodeRouterInfo(b)
			if err != nil || mri.Published != c.Ms {
				return fmt.Errorf("NewRouterInfo(published %d ms) stores %d ms (%v)", c.Ms, mri.Published, err)
			}
			back, _, err := router_info.ReadRouterInfo(b)
			if err != nil {
				return fmt.Errorf("ReadRouterInfo(NewRouterInfo(...)): %v", err)
			}
			if got := back.Published(); got == nil || got.Time().UnixMilli() != int64(c.Ms) {
				return fmt.Errorf("RouterInfo.Published() after the wire is not %d ms", c.Ms)
			}
			r.Class("routerinfo-published")
		}
	}
	if c.Ms >= 1<<31*1000 {
		r.NonTrivialStr(c, "lease", fmt.Sprint(c.Ms))
	}
	return nil
}

// checkDateConv: the explicit conversions of the date type over the whole int64 range of
// their argument. Whatever they return without an error is the mathematically exact
// millisecond count (s*1000, or ms itself); a count that is negative or does not fit below
// 2^63 ms has no exact value to return, so an error is the only admissible answer.
func checkDateConv(v int64, r *ev.Rec) error {
	exact := new(big.Int).Mul(big.NewInt(v), big.NewInt(1000))
	representable := exact.Sign() >= 0 && exact.BitLen() <= 63
	ds, err := data.NewDateFromUnix(v)
	if err == nil {
		if ds == nil || !representable || new(big.Int).SetBytes(ds.Bytes()).Cmp(exact) != 0 {
			return fmt.Errorf("NewDateFromUnix(%d) = %v with a nil error: the exact value is %s ms (representable below 2^63: %v)", v, ds, exact, representable)
		}
	} else if representable {
		return fmt.Errorf("NewDateFromUnix(%d) refused a representable second count (%s ms): %v", v, exact, err)
	}
	dm, err := data.NewDateFromMillis(v)
	if err == nil {
		if dm == nil || v < 0 || new(big.Int).SetBytes(dm.Bytes()).Cmp(big.NewInt(v)) != 0 {
			return fmt.Errorf("NewDateFromMillis(%d) = %v with a nil error: not the exact millisecond count", v, dm)
		}
	} else if v >= 0 {
		return fmt.Errorf("NewDateFromMillis(%d) refused a representable millisecond count: %v", v, err)
	}
	if !representable {
		r.Class("dateconv:out-of-range")
	}
	return nil
}

func checkLease2(c Case, r *ev.Rec) error {
	if err := checkDateConv(c.Secs, r); err != nil {
		return err
	}
	t := time.Unix(c.Secs, c.Nanos).In(zoneFor(uint64(c.Secs)))
	inRange := t.Unix() >= 0 && t.Unix() <= math.MaxUint32
	var gw data.Hash
	copy(gw[:], model.Fill(32, 6))
	l, err := lease.NewLease2(gw, 9, t)
	if !inRange {
		r.Class("lease2:out-of-range")
		if err == nil {
			return fmt.Errorf("NewLease2 accepted a time outside the 32-bit range (unix %d) and stored end date %d", t.Unix(), l.EndDate())
		}
		r.NonTrivialStr(c, "lease2-rej", fmt.Sprint(c.Secs), fmt.Sprint(c.Nanos))
		return nil
	}
	if err != nil {
		return fmt.Errorf("NewLease2 rejected an in-range time (unix %d): %v", t.Unix(), err)
	}
	secs := uint32(t.Unix())
	if l.EndDate() != secs || l.Time().Unix() != int64(secs) || l.Time().Nanosecond() != 0 {
		return fmt.Errorf("NewLease2(unix %d): EndDate %d, Time %d", t.Unix(), l.EndDate(), l.Time().Unix())
	}
	wantMs := new(big.Int).Mul(big.NewInt(int64(secs)), big.NewInt(1000))
	d := l.Date()
	if new(big.Int).SetBytes(d.Bytes()).Cmp(wantMs) != 0 {
		return fmt.Errorf("Lease2.Date() = %x for %d s (want %s ms)", d.Bytes(), secs, wantMs)
	}
	if d.Time().Unix() != int64(secs) {
		return fmt.Errorf("Lease2.Date().Time() = %d s for %d s", d.Time().Unix(), secs)
	}
	back, _, err := lease.ReadLease2(l.Bytes())
	if err != nil || back.EndDate() != secs {
		return fmt.Errorf("Lease2 round trip changed the end date")
	}
	if secs >= 1<<31 {
		r.NonTrivialStr(c, "lease2", fmt.Sprint(secs))
	}
	return nil
}

func checkOffline(c Case, r *ev.Rec) error {
	o, err := offline_signature.NewOfflineSignature(c.Published, 7, model.Fill(32, 1), model.Fill(64, 2), 7)
	if err != nil {
		return err
	}
	if o.Expires() != c.Published || o.ExpiresTime().Unix() != int64(c.Published) || o.ExpiresTime().Nanosecond() != 0 {
		return fmt.Errorf("OfflineSignature expires %d: ExpiresTime %d", c.Published, o.ExpiresTime().Unix())
	}
	d, err := o.ExpiresDate()
	want := new(big.Int).Mul(big.NewInt(int64(c.Published)), big.NewInt(1000))
	if err != nil || new(big.Int).SetBytes(d.Bytes()).Cmp(want) != 0 {
		return fmt.Errorf("OfflineSignature.ExpiresDate() = %x (%v) for %d s, want %s ms", d.Bytes(), err, c.Published, want)
	}
	back, _, err := offline_signature.ReadOfflineSignature(o.Bytes(), 7)
	if err != nil || back.Expires() != c.Published {
		return fmt.Errorf("offline signature round trip changed expires")
	}
	if c.Published >= 1<<31 {
		r.NonTrivialStr(c, "offline", fmt.Sprint(c.Published))
	}
	return nil
}

func checkExtremes(c Case, r *ev.Rec) error {
	if len(c.Dates) == 0 {
		return nil
	}
	s := gen.LeaseSetSpec{Dest: gen.IdentSpec{SigType: 7, EncType: 0, KeySeed: 3, PadSeed: 1}, Seed: 9}
	for i, d := range c.Dates {
		s.Leases = append(s.Leases, gen.LeaseSpec{Seed: uint64(i) + 1, Tunnel: uint32(i), EndMs: d})
	}
	m, _ := s.Build()
	ls, err := lease_set.ReadLeaseSet(m.Encode())
	if err != nil {
		return fmt.Errorf("ReadLeaseSet: %v", err)
	}
	newest, err1 := ls.NewestExpiration()
	oldest, err2 := ls.OldestExpiration()
	if err1 != nil || err2 != nil {
		return fmt.Errorf("Newest/OldestExpiration errors: %v %v", err1, err2)
	}
	nv := new(big.Int).SetBytes(newest.Bytes()).Uint64()
	ov := new(big.Int).SetBytes(oldest.Bytes()).Uint64()
	var max, min uint64 = 0, math.MaxUint64
	memberN, memberO := false, false
	distinct := map[uint64]bool{}
	for _, d := range c.Dates {
		if d > max {
			max = d
		}
		if d < min {
			min = d
		}
		if d == nv {
			memberN = true
		}
		if d == ov {
			memberO = true
		}
		distinct[d] = true
	}
	if !memberN || !memberO {
		return fmt.Errorf("Newest (%d) / Oldest (%d) expiration is not the date of any lease %v", nv, ov, c.Dates)
	}
	if nv != max || ov != min {
		return fmt.Errorf("NewestExpiration = %d (max is %d), OldestExpiration = %d (min is %d) for %v", nv, max, ov, min, c.Dates)
	}
	if len(distinct) >= 2 {
		r.NonTrivialStr(c, "extremes", fmt.Sprint(c.Dates))
	}
	return nil
}

func checkExpired(c Case, r *ev.Rec) error {
	if c.At != 0 {
		c.Delta = int64(c.At) - now.Unix()
		if c.Delta > -86400 && c.Delta < 86400 || c.At < 700 {
			r.Class("expired:absolute-within-a-day-of-now")
			return nil
		}
		r.Class("expired:absolute")
	}
	at := now.Add(time.Duration(c.Delta) * time.Second)
	want := c.Delta < 0
	secs := uint32(at.Unix())
	ms := uint64(at.UnixMilli())
	var gw [32]byte
	copy(gw[:], model.Fill(32, 8))
	l1, _, _ := lease.ReadLease(model.Lease{GW: gw, EndMs: ms}.Encode())
	l2, _, _ := lease.ReadLease2(model.Lease2{GW: gw, End: secs}.Encode())
	off, _ := offline_signature.NewOfflineSignature(secs, 7, model.Fill(32, 1), model.Fill(64, 2), 7)
	// header-carrying structures: published = at - 600, offset 600
	ls, _, err := lease_set2.ReadLeaseSet2(headerBytes("ls2", secs-600, 600))
	if err != nil {
		return err
	}
	ml, _, err := meta_leaseset.ReadMetaLeaseSet(headerBytes("meta", secs-600, 600))
	if err != nil {
		return err
	}
	el, _, err := encrypted_leaseset.ReadEncryptedLeaseSet(headerBytes("els", secs-600, 600))
	if err != nil {
		return err
	}
	me := ml.Entries()[0] // its expires field is the header's published = at-600
	got := map[string]bool{
		"Lease": l1.IsExpired(), "Lease2": l2.IsExpired(), "OfflineSignature": off.IsExpired(),
		"LeaseSet2": ls.IsExpired(), "MetaLeaseSet": ml.IsExpired(), "EncryptedLeaseSet": el.IsExpired(),
	}
	for k, v := range got {
		if v != want {
			return fmt.Errorf("%s.IsExpired() = %v for an expiry %d s from now", k, v, c.Delta)
		}
	}
	if me.IsExpired() != (c.Delta-600 < 0) {
		return fmt.Errorf("MetaLeaseSetEntry.IsExpired() = %v for an expiry %d s from now", me.IsExpired(), c.Delta-600)
	}
	if (l1.Validate() != nil) != want || (l2.Validate() != nil) != want || (off.Validate() != nil) != want {
		return fmt.Errorf("Validate() disagrees with IsExpired for an expiry %d s from now", c.Delta)
	}
	r.NonTrivialStr(c, "expired", fmt.Sprint(c.Delta))
	return nil
}

func check(c Case, r *ev.Rec) error {
	r.Class("kind:" + c.Kind)
	switch c.Kind {
	case "header":
		return checkHeader(c, r)
	case "lease":
		return checkLease(c, r)
	case "lease2":
		return checkLease2(c, r)
	case "offline":
		return checkOffline(c, r)
	case "extremes":
		return checkExtremes(c, r)
	case "expired":
		return checkExpired(c, r)
	}
	return nil
}

var bPub = []uint32{0, 1, 1<<31 - 1, 1 << 31, 1<<32 - 1}
var bOff = []uint16{0, 1, 65535}
var bMs = []uint64{0, 1, 1<<31*1000 - 1, 1 << 31 * 1000, (1<<32 - 1) * 1000, 1 << 32 * 1000, 9223372036854, 9223372036855, 9223372036856, 1<<63 - 1, 1<<63 - 1000}
var bSecs = []int64{-1, 0, 1, 1<<31 - 1, 1 << 31, 1<<32 - 1, 1 << 32, 1<<32 + 1, 9223372036, 9223372037, 1 << 40, -1 << 40, math.MaxInt64 / 2,
	math.MaxInt64, math.MinInt64, math.MinInt64 + 1, 1 << 53, 1 << 61, 1 << 62, -1 << 61, -1 << 62, 1<<61 + 1700000000, 1<<62 + 5, -1<<62 + 4000000000,
	9223372036854775, 9223372036854776, 9223372036854775807 / 1000000, 9223372036854775807/1000000 + 1, 18446744073709552, 18446744073709553,
	goZeroSecs, goZeroSecs - 1, goZeroSecs + 1, goZeroSecs + 86400, -62167219200, 253402300799, 253402300800}

// goZeroSecs is the Unix second of Go's zero time.Time (0001-01-01T00:00:00Z): the value a
// caller passes when a time field was never set.
const goZeroSecs = -62135596800

// wrapSecs returns a second count s outside [0, 2^32) for which s*mult, computed in
// 64-bit arithmetic, wraps to j*mult - (a value below mult): a range check or a stored
// value derived from seconds*1000, *10^6 or *10^9 then sees a small in-range number.
func wrapSecs(mult int64, k int64, j int64, neg bool) int64 {
	q := new(big.Int).Lsh(big.NewInt(k), 64)
	q.Div(q, big.NewInt(mult))
	if neg {
		q.Neg(q)
	}
	q.Add(q, big.NewInt(j))
	if !q.IsInt64() {
		return math.MaxInt64
	}
	return q.Int64()
}

func genCase(t *rapid.T) Case {
	c := Case{Kind: rapid.SampledFrom([]string{"header", "header", "lease", "lease2", "lease2", "offline", "extremes", "extremes", "expired"}).Draw(t, "kind")}
	switch c.Kind {
	case "header":
		if rapid.Bool().Draw(t, "b") {
			c.Published = rapid.SampledFrom(bPub).Draw(t, "pub")
			c.Offset = rapid.SampledFrom(bOff).Draw(t, "off")
		} else {
			c.Published = rapid.Uint32().Draw(t, "pub")
			c.Offset = rapid.Uint16().Draw(t, "off")
		}
		if rapid.IntRange(0, 3).Draw(t, "near") == 0 {
			c.Published = uint32(int64(rapid.SampledFrom([]int64{1 << 31, 1<<32 - 1}).Draw(t, "edge")) - int64(rapid.IntRange(0, 70000).Draw(t, "below")))
		}
		// an offline block whose transient key expires before, at or after the structure does:
		// the structure's own expiry is published + offset regardless
		switch rapid.IntRange(0, 5).Draw(t, "offline") {
		case 0:
			c.Off = rapid.SampledFrom([]uint32{1, 1<<31 - 1, 1<<32 - 1}).Draw(t, "offexp")
		case 1:
			c.Off = c.Published + uint32(c.Offset)/2 + 1
		case 2:
			c.Off = rapid.Uint32Range(1, 1<<32-1).Draw(t, "offexp2")
		}
	case "lease":
		if rapid.Bool().Draw(t, "b") {
			c.Ms = rapid.SampledFrom(bMs).Draw(t, "ms")
		} else {
			c.Ms = rapid.Uint64Range(0, 1<<63-1).Draw(t, "ms")
		}
	case "lease2":
		switch rapid.IntRange(0, 5).Draw(t, "b") {
		case 0, 1:
			c.Secs = rapid.SampledFrom(bSecs).Draw(t, "secs")
		case 2: // +-2^k +- small
			c.Secs = int64(1) << uint(rapid.IntRange(31, 62).Draw(t, "pow"))
			if rapid.Bool().Draw(t, "neg") {
				c.Secs = -c.Secs
			}
			c.Secs += rapid.Int64Range(-3, 4000000000).Draw(t, "delta")
		case 3: // products that wrap into the 32-bit range
			mult := rapid.SampledFrom([]int64{1000, 1000000, 1000000000}).Draw(t, "mult")
			c.Secs = wrapSecs(mult, rapid.Int64Range(1, mult/2-1).Draw(t, "k"), rapid.Int64Range(1, 1<<32).Draw(t, "j"), rapid.Bool().Draw(t, "neg"))
		case 4:
			c.Secs = rapid.Int64().Draw(t, "secs")
			if rapid.Bool().Draw(t, "beyond") { // beyond MaxInt64/1000: s*1000 wraps, to either sign
				c.Secs = rapid.Int64Range(math.MaxInt64/1000+1, math.MaxInt64).Draw(t, "secs2")
			}
		default:
			c.Secs = rapid.Int64Range(-1<<33, 1<<34).Draw(t, "secs")
		}
		c.Nanos = rapid.SampledFrom([]int64{0, 0, 1, 999999999, -1}).Draw(t, "nanos")
	case "offline":
		c.Published = gen.U32(t, "exp")
	case "extremes":
		n := rapid.IntRange(1, 16).Draw(t, "n")
		for i := 0; i < n; i++ {
			var d uint64
			switch rapid.IntRange(0, 3).Draw(t, "dk") {
			case 0:
				d = rapid.SampledFrom(bMs).Draw(t, "d")
			case 1:
				d = rapid.Uint64Range(0, 1<<63-1).Draw(t, "d")
			case 2:
				d = rapid.Uint64Range(1700000000000, 1700000000050).Draw(t, "d")
			default:
				if len(c.Dates) > 0 {
					d = c.Dates[rapid.IntRange(0, len(c.Dates)-1).Draw(t, "rep")]
				}
			}
			c.Dates = append(c.Dates, d)
		}
	case "expired":
		c.Delta = rapid.SampledFrom([]int64{-86400, 86400, -86400 * 30, 86400 * 30, -86401, 86401}).Draw(t, "delta")
		switch rapid.IntRange(0, 3).Draw(t, "abs") {
		case 0: // any representable expiry, and the 32-bit landmarks
			c.At = rapid.Uint32Range(700, 1<<32-1).Draw(t, "at")
		case 1:
			nowS := uint32(now.Unix())
			c.At = rapid.SampledFrom([]uint32{700, 1 << 30, 1<<31 - 1, 1 << 31, 1<<31 + 1, 1<<32 - 1, 1<<32 - 2, nowS + 1<<31 - 1, nowS + 1<<31, nowS + 1<<31 + 1, nowS - 1<<31, nowS + 1<<30, 4000000000}).Draw(t, "atb")
		}
	}
	return c
}

var prop = &ev.Prop[Case]{Sub: "expiry", Quick: 400000, Thorough: 4000000, Gen: genCase, Check: check}

func TestRegress(t *testing.T) { prop.Regress(t) }
func TestReplay(t *testing.T)  { prop.Replay(t) }
func TestProp(t *testing.T)    { prop.Run(t) }

func TestEnumBoundaries(t *testing.T) {
	ev.Enumerate(t, "boundary-pairs-and-dates", false, func(_, _ int, r *ev.Rec) error {
		for _, p := range bPub {
			for _, o := range bOff {
				if err := prop.One(Case{Kind: "header", Published: p, Offset: o}); err != nil {
					return err
				}
			}
			if err := prop.One(Case{Kind: "offline", Published: p}); err != nil {
				return err
			}
		}
		for _, ms := range bMs {
			if err := prop.One(Case{Kind: "lease", Ms: ms}); err != nil {
				return err
			}
		}
		for _, s := range bSecs {
			for _, n := range []int64{0, 999999999} {
				if err := prop.One(Case{Kind: "lease2", Secs: s, Nanos: n}); err != nil {
					return err
				}
			}
		}
		for _, mult := range []int64{1000, 1000000, 1000000000} {
			for _, k := range []int64{1, 2, 3, mult / 4, mult/2 - 1} {
				for _, j := range []int64{1, 2, 1700000000, 1<<32 - 1} {
					for _, neg := range []bool{false, true} {
						if err := prop.One(Case{Kind: "lease2", Secs: wrapSecs(mult, k, j, neg)}); err != nil {
							return err
						}
					}
				}
			}
		}
		for _, d := range []int64{-86400, 86400} {
			if err := prop.One(Case{Kind: "expired", Delta: d}); err != nil {
				return err
			}
		}
		nowS := uint32(now.Unix())
		for _, at := range []uint32{700, 1 << 30, 1<<31 - 1, 1 << 31, 1<<31 + 1, 1<<32 - 1, nowS + 1<<31 - 1, nowS + 1<<31, nowS + 1<<31 + 1, nowS + 1<<30, 4000000000} {
			if err := prop.One(Case{Kind: "expired", At: at}); err != nil {
				return err
			}
		}
		return nil
	})
}
