// Package c07 decides property C07: identity hashes and addresses are pure
// functions of the identity's wire bytes, and equality coincides with byte
// equality.
package c07

import (
	"bytes"
	"crypto/sha256"
	"fmt"
	"strings"
	"testing"
	"time"

	"github.com/go-i2p/common/data"
	"github.com/go-i2p/common/destination"
	"github.com/go-i2p/common/encrypted_leaseset"
	"github.com/go-i2p/common/lease"
	"github.com/go-i2p/common/lease_set2"
	"github.com/go-i2p/common/router_identity"
	"github.com/go-i2p/common/router_info"
	"pgregory.net/rapid"

	"verif/internal/ev"
	"verif/internal/gen"
	"verif/internal/libkeys"
	"verif/internal/model"
)

const rule = "cases: pairs (A, B) of identities; A from a model encoding of every permitted supported key-type pair (NULL/KEY certificate, 0-40 excess certificate bytes, padding random/zero/0xff/repeating), obtained through ReadDestination, ReadRouterIdentity, ReadRouterInfo and the constructors; after A was handed to CreateBlindedDestination, NewRouterIdentityFromKeysAndCert + AsDestination and NewLeaseSet2 it must still be the identity its bytes say; after A has been hashed and serialised once, a padding byte changed in place through the exported field, and the signing key replaced on a struct copy (hash, address, base64, Equals must follow the current bytes); KEY-certificate identities are also constructed twice from one key table (keys and padding as adjacent windows of one buffer with capacity to spare): after the first is serialised and hashed the second must still hash to SHA-256 of the specification encoding and the table must be untouched; B = A with one byte changed at any offset of the consumed bytes (kept when B still parses completely), a re-parse of A, or an independent identity. Oracle: Hash/IdentHash = SHA-256(model bytes) (crypto/sha256); Base32Address = own bit-level base32 of the hash, lower case, unpadded, 52 characters + .b32.i2p (60); Base64 decodes with the own base64 to the bytes; Equals/Equal <=> bytes equal; different bytes => different hash and address. Non-trivial: pair differs in padding, certificate payload or key bytes (B parsed); distinct by (A bytes, B bytes)."

func TestMain(m *testing.M) { ev.Main(m, "C07", rule) }

type Case struct {
	A    gen.IdentSpec `json:"a"`
	Kind string        `json:"kind"` // flip | same | other
	Pos  int           `json:"pos"`
	Xor  int           `json:"xor"`
	B    gen.IdentSpec `json:"b"`
}

func region(id model.Ident, pos int) string {
	switch {
	case pos < len(id.Enc):
		return "enc-key"
	case pos < 384-len(id.Sig):
		return "padding"
	case pos < 384:
		return "sig-key"
	case pos < 387:
		return "cert-header"
	case pos < 391:
		return "cert-types"
	}
	return "cert-extra"
}

func checkOne(tag string, enc []byte, r *ev.Rec) (*destination.Destination, *router_identity.RouterIdentity, error) {
	sum := sha256.Sum256(enc)
	wantAddr := model.Base32(sum[:]) + ".b32.i2p"
	d, rem, err := destination.ReadDestination(append(append([]byte{}, enc...), 9, 9, 9))
	if err != nil {
		return nil, nil, fmt.Errorf("%s: ReadDestination rejected a permitted identity: %v", tag, err)
	}
	if len(rem) != 3 {
		return nil, nil, fmt.Errorf("%s: ReadDestination left %d bytes, want 3", tag, len(rem))
	}
	h, err := d.Hash()
	if err != nil || h != sum {
		return nil, nil, fmt.Errorf("%s: Destination.Hash() = %x (%v), SHA-256 of the wire bytes is %x", tag, h, err, sum)
	}
	addr, err := d.Base32Address()
	if err != nil || addr != wantAddr || len(addr) != 60 || strings.ToLower(addr) != addr || strings.Contains(addr, "=") {
		return nil, nil, fmt.Errorf("%s: Base32Address() = %q (%v), want %q", tag, addr, err, wantAddr)
	}
	b64, err := d.Base64()
	if err != nil {
		return nil, nil, fmt.Errorf("%s: Base64(): %v", tag, err)
	}
	if dec, ok := model.UnBase64(b64); !ok || !bytes.Equal(dec, enc) || b64 != model.Base64(enc) {
		return nil, nil, fmt.Errorf("%s: Base64() does not decode back to the identity bytes", tag)
	}
	db, err := d.Bytes()
	if err != nil || !bytes.Equal(db, enc) {
		return nil, nil, fmt.Errorf("%s: Destination.Bytes() differs from the wire bytes", tag)
	}
	return &d, nil, nil
}

func routerSide(tag string, id model.Ident, enc []byte) (*router_identity.RouterIdentity, error) {
	sum := sha256.Sum256(enc)
	ri, rem, err := router_identity.ReadRouterIdentity(enc)
	if err != nil || len(rem) != 0 {
		return nil, fmt.Errorf("%s: ReadRouterIdentity rejected a permitted identity: %v (rem %d)", tag, err, len(rem))
	}
	// RouterInfo.IdentHash through a full RouterInfo carrying this identity
	mri := model.RouterInfo{Ident: id, Published: 1700000000000, Sig: model.Fill(model.SigLen[id.SigType], 3)}
	info, _, err := router_info.ReadRouterInfo(mri.Encode())
	if err != nil {
		return nil, fmt.Errorf("%s: ReadRouterInfo rejected a RouterInfo with this identity: %v", tag, err)
	}
	ih, err := info.IdentHash()
	if err != nil || [32]byte(ih) != sum {
		return nil, fmt.Errorf("%s: RouterInfo.IdentHash() = %x (%v), SHA-256 of the identity bytes is %x", tag, ih, err, sum)
	}
	if s := ri.String(); !strings.Contains(s, fmt.Sprintf("%x", sum[:16])) {
		return nil, fmt.Errorf("%s: RouterIdentity.String() = %q does not carry the hash prefix %x", tag, s, sum[:16])
	}
	ad := ri.AsDestination()
	if h, err := ad.Hash(); err != nil || h != sum {
		return nil, fmt.Errorf("%s: AsDestination().Hash() = %x (%v)", tag, h, err)
	}
	return ri, nil
}

func check(c Case, r *ev.Rec) error {
	idA, _ := c.A.Build()
	encA := idA.Encode()
	r.Class(fmt.Sprintf("pair:sig%d/enc%d", idA.SigType, idA.EncType))
	dA, _, err := checkOne("A", encA, r)
	if err != nil {
		return err
	}
	routerOK := idA.SigType != 11 // RedDSA is not permitted for router identities
	var rA *router_identity.RouterIdentity
	if routerOK {
		if rA, err = routerSide("A", idA, encA); err != nil {
			return err
		}
	}
	// constructor path gives the same hash
	if idA.Cert.Type == 5 {
		cd, err := libkeys.Dest(idA)
		if err != nil {
			return fmt.Errorf("NewDestination rejected permitted arguments: %v", err)
		}
		h, err := cd.Hash()
		if err != nil || h != sha256.Sum256(encA) {
			return fmt.Errorf("constructed Destination hashes to %x (%v), want SHA-256 of the specification encoding", h, err)
		}
		if !cd.Equals(dA) || !dA.Equals(cd) {
			return fmt.Errorf("constructed and parsed Destination with equal bytes are not Equals")
		}
		// the same identity constructed twice from one key table (keys and padding are adjacent
		// windows of one buffer with capacity to spare): using the first must leave the second
		// - and the table - what they were
		ka, kb, intact, err := libkeys.KACPair(idA)
		if err != nil {
			return fmt.Errorf("NewKeysAndCert rejected permitted arguments taken from a key table: %v", err)
		}
		d1, err1 := destination.NewDestination(ka)
		d2, err2 := destination.NewDestination(kb)
		if err1 != nil || err2 != nil {
			return fmt.Errorf("NewDestination rejected permitted arguments taken from a key table: %v / %v", err1, err2)
		}
		b1, berr := d1.Bytes()
		h1, herr := d1.Hash()
		a1, aerr := d1.Base32Address()
		_ = d1.Equals(dA)
		if berr != nil || herr != nil || aerr != nil || !bytes.Equal(b1, encA) || h1 != sha256.Sum256(encA) {
			return fmt.Errorf("Destination constructed from a key table: Bytes / Hash / Base32Address = %d bytes, %x, %q (%v %v %v), want the specification encoding and its SHA-256", len(b1), h1, a1, berr, herr, aerr)
		}
		h2, herr := d2.Hash()
		b2, berr := d2.Bytes()
		if herr != nil || berr != nil || h2 != sha256.Sum256(encA) || !bytes.Equal(b2, encA) {
			return fmt.Errorf("second Destination constructed from the same key table hashes to %x over %d bytes (%v %v) after the first one was serialised and hashed; want SHA-256 of the specification encoding %x", h2, len(b2), herr, berr, sha256.Sum256(encA))
		}
		if err := intact(); err != nil {
			return err
		}
		r.Class("constructed-from-key-table")
	}
	// the same identity obtained from differently framed buffers (standalone, followed by
	// other data, embedded in a RouterInfo) is equal to itself
	framed := append(append([]byte{}, encA...), model.Fill(40, c.A.PadSeed^7)...)
	dF, _, err := destination.ReadDestination(framed)
	if err != nil {
		return fmt.Errorf("ReadDestination(identity ++ 40 bytes): %v", err)
	}
	if !dA.Equals(&dF) || !dF.Equals(dA) {
		return fmt.Errorf("Destination.Equals is false for the same identity bytes parsed from a longer buffer")
	}
	if hF, _ := dF.Hash(); hF != sha256.Sum256(encA) {
		return fmt.Errorf("Destination.Hash() depends on what follows the identity in the buffer")
	}
	if routerOK {
		rF, _, err := router_identity.ReadRouterIdentity(framed)
		if err != nil {
			return fmt.Errorf("ReadRouterIdentity(identity ++ 40 bytes): %v", err)
		}
		mri := model.RouterInfo{Ident: idA, Published: 1700000000000, Sig: model.Fill(model.SigLen[idA.SigType], 3)}
		info, _, err := router_info.ReadRouterInfo(mri.Encode())
		if err != nil {
			return fmt.Errorf("ReadRouterInfo: %v", err)
		}
		rI := info.RouterIdentity()
		if !rA.Equal(rF) || !rF.Equal(rA) || !rA.Equal(rI) || !rI.Equal(rA) || !rF.Equal(rI) {
			return fmt.Errorf("RouterIdentity.Equal is false for the same identity bytes parsed standalone / from a longer buffer / from a RouterInfo")
		}
	}
	if err := afterUse(c, idA, encA, r); err != nil {
		return err
	}
	// B
	var encB []byte
	var idB model.Ident
	switch c.Kind {
	case "same":
		encB, idB = encA, idA
	case "other":
		idB, _ = c.B.Build()
		encB = idB.Encode()
	default:
		p := c.Pos % len(encA)
		encB = append([]byte{}, encA...)
		encB[p] ^= byte(c.Xor%255 + 1)
		r.Class("flip:" + region(idA, p))
	}
	dB, remB, err := destination.ReadDestination(encB)
	if err != nil || len(remB) != 0 {
		r.Class("B-unparseable")
		return nil
	}
	if c.Kind == "flip" {
		// the changed byte may alter the declared key types; re-derive
		var n int
		idB, n, err = model.DecodeIdent(encB)
		if err != nil || n != len(encB) {
			r.Class("B-not-in-model")
			return nil
		}
	}
	same := bytes.Equal(encA, encB)
	if dA.Equals(&dB) != same || dB.Equals(dA) != same {
		return fmt.Errorf("Destination.Equals = %v/%v but bytes equal = %v (kind %s)", dA.Equals(&dB), dB.Equals(dA), same, c.Kind)
	}
	hA, _ := dA.Hash()
	hB, errB := dB.Hash()
	aA, _ := dA.Base32Address()
	aB, _ := dB.Base32Address()
	if errB != nil {
		return fmt.Errorf("B parses but does not hash: %v", errB)
	}
	if (hA == hB) != same || (aA == aB) != same {
		return fmt.Errorf("hash/address equality (%v/%v) does not follow byte equality (%v): a byte at offset %d (%s) does not take part", hA == hB, aA == aB, same, c.Pos%len(encA), region(idA, c.Pos%len(encA)))
	}
	if hB != sha256.Sum256(encB) {
		return fmt.Errorf("B: Hash() is not SHA-256 of B's bytes")
	}
	if routerOK && idB.SigType != 11 && idB.SigType != 8 {
		rB, remR, err := router_identity.ReadRouterIdentity(encB)
		if err == nil && len(remR) == 0 {
			if rA.Equal(rB) != same || rB.Equal(rA) != same {
				return fmt.Errorf("RouterIdentity.Equal = %v but bytes equal = %v", rA.Equal(rB), same)
			}
		}
	}
	if !same {
		r.NonTrivial(c, encA, encB)
	}
	return nil
}

// afterUse: hash, address and equality follow the identity's current bytes, not
// what the value was when it was first serialised or hashed. The exported fields
// of KeysAndCert are changed after the value has been used once - a padding byte
// in place, and the signing key on a struct copy (what a key-rotation or blinding
// helper does) - and everything is compared with SHA-256 of the bytes the model
// gives for the changed fields.
func afterUse(c Case, idA model.Ident, encA []byte, r *ev.Rec) error {
	warm := func(d *destination.Destination) {
		d.Hash()
		d.Bytes()
		d.Base32Address()
		d.Base64()
	}
	expect := func(what string, d *destination.Destination, want []byte) error {
		sum := sha256.Sum256(want)
		b, err := d.Bytes()
		if err != nil || !bytes.Equal(b, want) {
			return fmt.Errorf("%s: Bytes() does not reflect the change (err %v)", what, err)
		}
		if h, err := d.Hash(); err != nil || h != sum {
			return fmt.Errorf("%s: Hash() = %x (%v), SHA-256 of the identity's bytes is now %x", what, h, err, sum)
		}
		if a, err := d.Base32Address(); err != nil || a != model.Base32(sum[:])+".b32.i2p" {
			return fmt.Errorf("%s: Base32Address() = %q (%v) does not follow the identity's bytes", what, a, err)
		}
		if b64, err := d.Base64(); err != nil || b64 != model.Base64(want) {
			return fmt.Errorf("%s: Base64() does not follow the identity's bytes (%v)", what, err)
		}
		fresh, _, err := destination.ReadDestination(append([]byte{}, want...))
		if err != nil {
			return nil // the changed bytes are not an accepted identity; nothing to compare with
		}
		if !d.Equals(&fresh) || !fresh.Equals(d) {
			return fmt.Errorf("%s: Equals is false for an identity with identical serialisation parsed afresh", what)
		}
		orig, _, _ := destination.ReadDestination(append([]byte{}, encA...))
		if d.Equals(&orig) || orig.Equals(d) {
			return fmt.Errorf("%s: Equals is true although the serialisations differ", what)
		}
		return nil
	}
	// the identity is handed to other packages (blinding, the router-identity wrappers,
	// a LeaseSet2 constructor); afterwards it must still be what its wire bytes say
	{
		d, _, err := destination.ReadDestination(append([]byte{}, encA...))
		if err == nil {
			handed := ""
			if idA.SigType == 7 || idA.SigType == 11 {
				if _, berr := encrypted_leaseset.CreateBlindedDestination(d, model.Fill(32, c.A.KeySeed+3), time.Unix(1700000000, 0)); berr == nil {
					handed += " CreateBlindedDestination"
				}
			}
			if idA.SigType != 11 {
				if ri, rerr := router_identity.NewRouterIdentityFromKeysAndCert(d.KeysAndCert); rerr == nil {
					ad := ri.AsDestination()
					ad.Hash()
					handed += " NewRouterIdentityFromKeysAndCert+AsDestination"
				}
			}
			if l2, lerr := lease.NewLease2(data.Hash{1}, 1, time.Unix(1900000000, 0)); lerr == nil {
				keys := []lease_set2.EncryptionKey{{KeyType: 4, KeyLen: 32, KeyData: model.Fill(32, 2)}}
				if ls, nerr := lease_set2.NewLeaseSet2(d, 1700000000, 600, 0, nil, data.Mapping{}, keys, []lease.Lease2{*l2}, nil); nerr == nil {
					ls.Bytes()
					handed += " NewLeaseSet2"
				}
			}
			sum := sha256.Sum256(encA)
			b, berr := d.Bytes()
			h, herr := d.Hash()
			fresh, _, _ := destination.ReadDestination(append([]byte{}, encA...))
			if berr != nil || herr != nil || !bytes.Equal(b, encA) || h != sum || !d.Equals(&fresh) || !fresh.Equals(&d) {
				return fmt.Errorf("after the destination was handed to%s it no longer is the identity it was parsed from (Bytes equal %v, hash equal %v, Equals(fresh parse) %v)", handed, bytes.Equal(b, encA), h == sum, d.Equals(&fresh))
			}
			if handed != "" {
				r.Class("handed-to-other-packages")
			}
		}
	}
	padLen := 384 - len(idA.Enc) - len(idA.Sig)
	if padLen > 0 {
		d, _, err := destination.ReadDestination(append([]byte{}, encA...))
		if err != nil {
			return nil
		}
		warm(&d)
		if len(d.Padding) != padLen {
			return fmt.Errorf("Padding field has %d bytes, the layout leaves %d", len(d.Padding), padLen)
		}
		i := c.Pos % padLen
		x := byte(c.Xor%255 + 1)
		d.Padding[i] ^= x
		want := append([]byte{}, encA...)
		want[len(idA.Enc)+i] ^= x
		if err := expect("padding byte changed after first use", &d, want); err != nil {
			return err
		}
		r.Class("after-use:padding")
	}
	// signing key replaced on a struct copy of a used value
	other := c.A
	other.KeySeed ^= 0x5a5a
	idO, _ := other.Build()
	encO := idO.Encode()
	if bytes.Equal(idO.Sig, idA.Sig) {
		return nil
	}
	d, _, err := destination.ReadDestination(append([]byte{}, encA...))
	dO, _, errO := destination.ReadDestination(append([]byte{}, encO...))
	if err != nil || errO != nil {
		return nil
	}
	warm(&d)
	kac := *d.KeysAndCert
	kac.SigningPublic = dO.SigningPublic
	derived := destination.Destination{KeysAndCert: &kac}
	want := append([]byte{}, encA...)
	copy(want[384-len(idA.Sig):384], idO.Sig)
	if err := expect("signing key replaced on a copy of a used value", &derived, want); err != nil {
		return err
	}
	// the original is unaffected
	if h, _ := d.Hash(); h != sha256.Sum256(encA) {
		return fmt.Errorf("the original's hash changed when a struct copy was modified")
	}
	r.Class("after-use:signing-key")
	return nil
}

var destSigs = []int{7, 7, 11, 0, 1, 2}
var destEncs = []int{4, 4, 0}

func genCase(t *rapid.T) Case {
	c := Case{A: gen.Ident(t, "a", destSigs, destEncs)}
	c.Kind = rapid.SampledFrom([]string{"flip", "flip", "flip", "flip", "same", "other"}).Draw(t, "kind")
	switch c.Kind {
	case "flip":
		switch rapid.IntRange(0, 4).Draw(t, "where") {
		case 0:
			c.Pos = rapid.IntRange(0, 383).Draw(t, "pos")
		case 1:
			c.Pos = rapid.IntRange(384, 440).Draw(t, "pos")
		case 2: // padding boundaries
			c.Pos = rapid.SampledFrom([]int{31, 32, 255, 256, 351, 352, 319, 320, 287, 288, 383}).Draw(t, "pos")
		default:
			c.Pos = rapid.IntRange(0, 1000).Draw(t, "pos")
		}
		c.Xor = rapid.IntRange(0, 254).Draw(t, "xor")
	case "other":
		c.B = gen.Ident(t, "b", destSigs, destEncs)
		if rapid.Bool().Draw(t, "samekeys") {
			c.B.KeySeed, c.B.SigType, c.B.EncType, c.B.NullCert = c.A.KeySeed, c.A.SigType, c.A.EncType, c.A.NullCert
		}
	}
	return c
}

var prop = &ev.Prop[Case]{Sub: "identity", Quick: 200000, Thorough: 2000000, Gen: genCase, Check: check}

func TestRegress(t *testing.T) { prop.Regress(t) }
func TestReplay(t *testing.T)  { prop.Replay(t) }
func TestProp(t *testing.T)    { prop.Run(t) }

// every offset of one identity of each permitted pair
func TestEnumOffsets(t *testing.T) {
	ev.Enumerate(t, "every-offset-of-one-identity-per-pair", true, func(shard, shards int, r *ev.Rec) error {
		n := 0
		for _, st := range []int{0, 1, 2, 7, 11} {
			for _, et := range []int{0, 4} {
				a := gen.IdentSpec{SigType: st, EncType: et, KeySeed: uint64(st*7 + et + 2), PadSeed: 5, Extra: "0102030405"}
				for pos := 0; pos < 384+3+4+5; pos++ {
					n++
					if n%shards != shard {
						continue
					}
					if err := prop.One(Case{A: a, Kind: "flip", Pos: pos, Xor: pos % 200}); err != nil {
						return err
					}
				}
			}
		}
		return nil
	})
}
