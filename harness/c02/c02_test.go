// Package c02 decides property C02: the wire format agrees with the I2P
// common-structures specification in both directions.
package c02

import (
	"bytes"
	"fmt"
	"reflect"
	"testing"
	"time"

	"github.com/go-i2p/common/certificate"
	"github.com/go-i2p/common/data"
	"github.com/go-i2p/common/destination"
	"github.com/go-i2p/common/encrypted_leaseset"
	"github.com/go-i2p/common/key_certificate"
	"github.com/go-i2p/common/keys_and_cert"
	"github.com/go-i2p/common/lease"
	"github.com/go-i2p/common/lease_set"
	"github.com/go-i2p/common/lease_set2"
	"github.com/go-i2p/common/meta_leaseset"
	"github.com/go-i2p/common/offline_signature"
	"github.com/go-i2p/common/router_address"
	"github.com/go-i2p/common/router_identity"
	"github.com/go-i2p/common/router_info"
	elgamal "github.com/go-i2p/crypto/elg"
	"pgregory.net/rapid"

	"verif/internal/ev"
	"verif/internal/gen"
	"verif/internal/libkeys"
	"verif/internal/model"
)

const rule = "cases: model values of every structure (identity with every supported key-type pair, NULL/KEY certificate, excess payload, any padding; Lease/Lease2; LeaseSet 0..16 leases; LeaseSet2 with 0..6 options incl. empty values / one-character keys / 255-byte strings, 1..16 keys of known and unknown types, 0..16 leases, offline block with any transient type, any flags and timestamps; MetaLeaseSet in the library-documented layout and in the layout common.md defines; EncryptedLeaseSet; OfflineSignature; RouterAddress; RouterInfo with 0..8 addresses). Oracle A (spec -> library): the independent encoder's bytes (plus a 3-byte suffix) must be accepted, consume exactly the encoding, and every public accessor must report the field of the value. Oracle B (library -> spec): the value built through the public constructors must serialise to bytes the independent strict decoder reads back as the same field values. Non-trivial: value has a non-default key pair, >= 1 option, offline block, >= 2 leases/keys/entries/addresses or certificate excess; distinct by encoding."

func TestMain(m *testing.M) { ev.Main(m, "C02", rule) }

type Case struct {
	Kind string              `json:"kind"` // ident | lease | ls | ls2 | meta | metaspec | els | offline | addr | ri
	ID   *gen.IdentSpec      `json:"ident,omitempty"`
	LS   *gen.LeaseSetSpec   `json:"ls,omitempty"`
	LS2  *gen.LS2Spec        `json:"ls2,omitempty"`
	Meta *gen.MetaSpec       `json:"meta,omitempty"`
	ELS  *gen.ELSSpec        `json:"els,omitempty"`
	Addr *gen.AddrSpec       `json:"addr,omitempty"`
	RI   *gen.RouterInfoSpec `json:"ri,omitempty"`
	L    *gen.LeaseSpec      `json:"lease,omitempty"`
	L2   *gen.Lease2Spec     `json:"lease2,omitempty"`
	NRev int                 `json:"nrev,omitempty"`
}

var suffix = []byte{0xA5, 0x00, 0xFF}

func withSuffix(b []byte) []byte { return append(append(make([]byte, 0, len(b)+3), b...), suffix...) }

func eq(what string, got, want any) error {
	if !reflect.DeepEqual(got, want) {
		return fmt.Errorf("%s: library reports %v, the encoded value is %v", what, short(got), short(want))
	}
	return nil
}

func short(v any) string {
	s := fmt.Sprintf("%x", v)
	if b, ok := v.([]byte); !ok {
		s = fmt.Sprintf("%v", v)
	} else if len(b) > 40 {
		s = fmt.Sprintf("%x…(%d bytes)", b[:40], len(b))
	}
	return s
}

// sameBody compares constructor output (without its signature) with the
// independent encoding of the same field values.
func sameBody(what string, got []byte, sigLen int, want []byte) error {
	if len(got) < sigLen {
		return fmt.Errorf("%s output shorter than its signature", what)
	}
	body := got[:len(got)-sigLen]
	if !bytes.Equal(body, want) {
		d := 0
		for d < len(body) && d < len(want) && body[d] == want[d] {
			d++
		}
		return fmt.Errorf("%s output differs from the specification encoding of the same field values: %d vs %d bytes before the signature, first difference at offset %d", what, len(body), len(want), d)
	}
	return nil
}

func pairsOf(m data.Mapping) ([]model.Pair, error) {
	var out []model.Pair
	for _, kv := range m.Values() {
		k, err := kv[0].Data()
		if err != nil {
			return nil, err
		}
		v, err := kv[1].Data()
		if err != nil {
			return nil, err
		}
		out = append(out, model.Pair{K: []byte(k), V: []byte(v)})
	}
	return out, nil
}

func samePairs(what string, m data.Mapping, want []model.Pair) error {
	got, err := pairsOf(m)
	if err != nil {
		return fmt.Errorf("%s: %v", what, err)
	}
	if len(got) != len(want) {
		return fmt.Errorf("%s: library exposes %d pairs, the encoding has %d", what, len(got), len(want))
	}
	for i := range got {
		if !bytes.Equal(got[i].K, want[i].K) || !bytes.Equal(got[i].V, want[i].V) {
			return fmt.Errorf("%s: pair %d is %q=%q, encoded %q=%q", what, i, got[i].K, got[i].V, want[i].K, want[i].V)
		}
	}
	return nil
}

func identAccessors(what string, k *keys_and_cert.KeysAndCert, id model.Ident) error {
	pk, err := k.PublicKey()
	if err != nil {
		return fmt.Errorf("%s: PublicKey(): %v", what, err)
	}
	sk, err := k.SigningPublicKey()
	if err != nil {
		return fmt.Errorf("%s: SigningPublicKey(): %v", what, err)
	}
	if err := eq(what+" encryption key", pk.Bytes(), id.Enc); err != nil {
		return err
	}
	if err := eq(what+" signing key", sk.Bytes(), id.Sig); err != nil {
		return err
	}
	if len(id.Pad) > 0 || len(k.Padding) > 0 {
		if err := eq(what+" padding", k.Padding, id.Pad); err != nil {
			return err
		}
	}
	c := k.Certificate()
	ct, err := c.Type()
	if err != nil || ct != id.Cert.Type {
		return fmt.Errorf("%s certificate type %d (%v), encoded %d", what, ct, err, id.Cert.Type)
	}
	cl, err := c.Length()
	if err != nil || cl != len(id.Cert.Payload) {
		return fmt.Errorf("%s certificate length %d (%v), encoded %d", what, cl, err, len(id.Cert.Payload))
	}
	cd, err := c.Data()
	if err != nil || !bytes.Equal(cd, id.Cert.Payload) {
		return fmt.Errorf("%s certificate payload differs (%v)", what, err)
	}
	if k.KeyCertificate.SigningPublicKeyType() != id.SigType || k.KeyCertificate.PublicKeyType() != id.EncType {
		return fmt.Errorf("%s key types %d/%d, encoded %d/%d", what, k.KeyCertificate.SigningPublicKeyType(), k.KeyCertificate.PublicKeyType(), id.SigType, id.EncType)
	}
	b, err := k.Bytes()
	if err != nil || !bytes.Equal(b, id.Encode()) {
		return fmt.Errorf("%s re-serialises differently (%v)", what, err)
	}
	return nil
}

func offlineAccessors(what string, o *offline_signature.OfflineSignature, want *model.Offline, destType int) error {
	if (o == nil) != (want == nil) {
		return fmt.Errorf("%s: offline block present=%v, encoded present=%v", what, o != nil, want != nil)
	}
	if o == nil {
		return nil
	}
	if o.Expires() != want.Expires || int(o.TransientSigType()) != want.TType || !bytes.Equal(o.TransientPublicKey(), want.TKey) || !bytes.Equal(o.Signature(), want.Sig) || int(o.DestinationSigType()) != destType {
		return fmt.Errorf("%s: offline block fields differ (expires %d/%d, type %d/%d)", what, o.Expires(), want.Expires, o.TransientSigType(), want.TType)
	}
	if !bytes.Equal(o.Bytes(), want.Encode()) || !bytes.Equal(o.SignedData(), want.SignedPart()) || o.Len() != len(want.Encode()) {
		return fmt.Errorf("%s: offline block Bytes/SignedData/Len differ from the encoding", what)
	}
	if !o.ExpiresTime().Equal(time.Unix(int64(want.Expires), 0)) {
		return fmt.Errorf("%s: offline ExpiresTime %v for %d", what, o.ExpiresTime(), want.Expires)
	}
	return nil
}

// ---------------------------------------------------------------------------

func checkIdent(c Case, r *ev.Rec) error {
	id, _ := c.ID.Build()
	enc := id.Encode()
	// A
	k, rem, err := keys_and_cert.ReadKeysAndCert(withSuffix(enc))
	if err != nil {
		return fmt.Errorf("ReadKeysAndCert rejected a well-formed identity (sig %d enc %d, cert %d): %v", id.SigType, id.EncType, id.Cert.Type, err)
	}
	if !bytes.Equal(rem, suffix) {
		return fmt.Errorf("ReadKeysAndCert consumed %d bytes, the encoding is %d", len(enc)+3-len(rem), len(enc))
	}
	if err := identAccessors("ReadKeysAndCert", k, id); err != nil {
		return err
	}
	destOK := id.SigType != 8 && id.EncType < 5
	riOK := destOK && id.SigType != 11
	if destOK {
		d, rem, err := destination.ReadDestination(withSuffix(enc))
		if err != nil || !bytes.Equal(rem, suffix) {
			return fmt.Errorf("ReadDestination: %v (rem %d)", err, len(rem))
		}
		if err := identAccessors("ReadDestination", d.KeysAndCert, id); err != nil {
			return err
		}
	}
	if riOK {
		ri, rem, err := router_identity.ReadRouterIdentity(withSuffix(enc))
		if err != nil || !bytes.Equal(rem, suffix) {
			return fmt.Errorf("ReadRouterIdentity: %v (rem %d)", err, len(rem))
		}
		if err := identAccessors("ReadRouterIdentity", ri.KeysAndCert, id); err != nil {
			return err
		}
	}
	// certificate alone
	cert, rem, err := certificate.ReadCertificate(withSuffix(id.Cert.Encode()))
	if err != nil || !bytes.Equal(rem, suffix) || !bytes.Equal(cert.Bytes(), id.Cert.Encode()) {
		return fmt.Errorf("ReadCertificate on the identity's certificate: %v (rem %d)", err, len(rem))
	}
	if id.Cert.Type == 5 {
		kc, rem, err := key_certificate.NewKeyCertificate(withSuffix(id.Cert.Encode()))
		if err != nil || !bytes.Equal(rem, suffix) || kc.SigningPublicKeyType() != id.SigType || kc.PublicKeyType() != id.EncType {
			return fmt.Errorf("NewKeyCertificate on the identity's certificate: %v", err)
		}
		// B
		kk, err := libkeys.KAC(id)
		if err != nil {
			return fmt.Errorf("NewKeysAndCert rejected well-formed arguments: %v", err)
		}
		out, err := kk.Bytes()
		if err != nil {
			return err
		}
		_, n, err := model.DecodeIdent(out)
		if err != nil || n != len(out) {
			return fmt.Errorf("independent decoder rejects the constructed KeysAndCert: %v", err)
		}
		if err := sameBody("NewKeysAndCert", out, 0, enc); err != nil {
			return err
		}
		r.Class("ident:constructor")
	}
	r.Class(fmt.Sprintf("ident:sig%d/enc%d", id.SigType, id.EncType))
	if len(id.Pad) > 0 || len(id.Cert.Payload) > 4 {
		r.NonTrivial(c, []byte("ident"), enc)
	}
	return nil
}

func checkLease(c Case, r *ev.Rec) error {
	l := c.L.Build()
	enc := l.Encode()
	ll, rem, err := lease.ReadLease(withSuffix(enc))
	if err != nil || !bytes.Equal(rem, suffix) {
		return fmt.Errorf("ReadLease: %v", err)
	}
	if [32]byte(ll.TunnelGateway()) != l.GW || ll.TunnelID() != l.Tunnel || !bytes.Equal(ll.Date().Bytes(), model.U64(l.EndMs)) {
		return fmt.Errorf("Lease accessors differ from the encoded fields")
	}
	if l.EndMs < 1<<63 && ll.Time().UnixMilli() != int64(l.EndMs) {
		return fmt.Errorf("Lease.Time() = %d ms, encoded %d", ll.Time().UnixMilli(), l.EndMs)
	}
	if l.EndMs < 1<<63 {
		nl, err := lease.NewLease(data.Hash(l.GW), l.Tunnel, time.UnixMilli(int64(l.EndMs)))
		if err != nil || !bytes.Equal(nl.Bytes(), enc) {
			return fmt.Errorf("NewLease does not produce the specification encoding (%v)", err)
		}
	}
	l2 := c.L2.Build()
	enc2 := l2.Encode()
	ll2, rem, err := lease.ReadLease2(withSuffix(enc2))
	if err != nil || !bytes.Equal(rem, suffix) {
		return fmt.Errorf("ReadLease2: %v", err)
	}
	if [32]byte(ll2.TunnelGateway()) != l2.GW || ll2.TunnelID() != l2.Tunnel || ll2.EndDate() != l2.End || ll2.Time().Unix() != int64(l2.End) {
		return fmt.Errorf("Lease2 accessors differ from the encoded fields")
	}
	nl2, err := lease.NewLease2(data.Hash(l2.GW), l2.Tunnel, time.Unix(int64(l2.End), 0))
	if err != nil || !bytes.Equal(nl2.Bytes(), enc2) {
		return fmt.Errorf("NewLease2 does not produce the specification encoding (%v)", err)
	}
	r.NonTrivial(c, enc, enc2)
	return nil
}

func checkLS(c Case, r *ev.Rec) error {
	m, key := c.LS.Build()
	enc := m.Encode()
	ls, err := lease_set.ReadLeaseSet(withSuffix(enc))
	if err != nil {
		return fmt.Errorf("ReadLeaseSet rejected a well-formed LeaseSet (dest sig %d, %d leases): %v", m.Dest.SigType, len(m.Leases), err)
	}
	d := ls.Destination()
	if err := identAccessors("LeaseSet.Destination", d.KeysAndCert, m.Dest); err != nil {
		return err
	}
	pk, err := ls.PublicKey()
	if err != nil || !bytes.Equal(pk[:], m.EncKey) {
		return fmt.Errorf("LeaseSet.PublicKey differs (%v)", err)
	}
	sk, err := ls.SigningKey()
	if err != nil || !bytes.Equal(sk.Bytes(), m.SigKey) {
		return fmt.Errorf("LeaseSet.SigningKey differs (%v)", err)
	}
	if ls.LeaseCount() != len(m.Leases) || len(ls.Leases()) != len(m.Leases) {
		return fmt.Errorf("LeaseSet lease count %d/%d, encoded %d", ls.LeaseCount(), len(ls.Leases()), len(m.Leases))
	}
	for i, l := range ls.Leases() {
		if !bytes.Equal(l.Bytes(), m.Leases[i].Encode()) {
			return fmt.Errorf("LeaseSet lease %d differs", i)
		}
	}
	sg := ls.Signature()
	if !bytes.Equal(sg.Bytes(), m.Sig) || sg.Type() != m.Dest.SigType {
		return fmt.Errorf("LeaseSet signature differs (type %d, encoded %d)", sg.Type(), m.Dest.SigType)
	}
	out, err := ls.Bytes()
	if err != nil || !bytes.Equal(out, enc) {
		return fmt.Errorf("LeaseSet re-serialises differently (%v)", err)
	}
	// B: constructor
	if priv, perr := libkeys.SigPriv(key); perr == nil {
		dest, err := libkeys.ParsedDest(m.Dest)
		if err != nil {
			return err
		}
		var ek elgamal.ElgPublicKey
		copy(ek[:], m.EncKey)
		rk, err := libkeys.SigPub(m.Dest.SigType, m.SigKey)
		if err != nil {
			return err
		}
		var leases []lease.Lease
		for _, l := range m.Leases {
			var x lease.Lease
			copy(x[:], l.Encode())
			leases = append(leases, x)
		}
		nls, err := lease_set.NewLeaseSet(dest, ek, rk, leases, priv)
		if err != nil {
			return fmt.Errorf("NewLeaseSet rejected well-formed arguments: %v", err)
		}
		nb, err := nls.Bytes()
		if err != nil {
			return err
		}
		back, n, err := model.DecodeLeaseSet(nb)
		if err != nil || n != len(nb) {
			return fmt.Errorf("independent decoder rejects NewLeaseSet output: %v", err)
		}
		if err := sameBody("NewLeaseSet", nb, len(back.Sig), m.SignedPart()); err != nil {
			return err
		}
		r.Class("ls:constructor")
	}
	r.Class(fmt.Sprintf("ls:sig%d", m.Dest.SigType))
	if len(m.Leases) >= 2 || m.Dest.SigType != 7 {
		r.NonTrivial(c, []byte("ls"), enc)
	}
	return nil
}

func headerAccessors(what string, dest destination.Destination, published uint32, expires, flags uint16, pubTime, expTime time.Time, h model.Header) error {
	if err := identAccessors(what+".Destination", dest.KeysAndCert, h.Dest); err != nil {
		return err
	}
	if published != h.Published || expires != h.Expires || flags != h.Flags {
		return fmt.Errorf("%s header: published %d/%d expires %d/%d flags %#x/%#x", what, published, h.Published, expires, h.Expires, flags, h.Flags)
	}
	if pubTime.Unix() != int64(h.Published) || expTime.Unix() != int64(h.Published)+int64(h.Expires) {
		return fmt.Errorf("%s header times: published %d, expiration %d for %d+%d", what, pubTime.Unix(), expTime.Unix(), h.Published, h.Expires)
	}
	return nil
}

func checkLS2(c Case, r *ev.Rec) error {
	m, _, outer := c.LS2.Build()
	enc := m.Encode()
	ls, rem, err := lease_set2.ReadLeaseSet2(withSuffix(enc))
	if err != nil {
		if len(enc) < 499 && r.Known("F-LS2-MIN", c) {
			return nil
		}
		return fmt.Errorf("ReadLeaseSet2 rejected a well-formed LeaseSet2 (%d bytes, dest sig %d, %d keys, %d leases, %d options, offline %v): %v", len(enc), m.Dest.SigType, len(m.Keys), len(m.Leases), len(m.Options), m.Offline != nil, err)
	}
	if !bytes.Equal(rem, suffix) {
		return fmt.Errorf("ReadLeaseSet2 consumed %d bytes, the encoding is %d", len(enc)+3-len(rem), len(enc))
	}
	if err := headerAccessors("LeaseSet2", ls.Destination(), ls.Published(), ls.Expires(), ls.Flags(), ls.PublishedTime(), ls.ExpirationTime(), m.Header); err != nil {
		return err
	}
	if ls.HasOfflineKeys() != (m.Flags&1 != 0) || ls.IsUnpublished() != (m.Flags&2 != 0) || ls.IsBlinded() != (m.Flags&4 != 0) {
		return fmt.Errorf("LeaseSet2 flag predicates disagree with flags %#x", m.Flags)
	}
	if err := offlineAccessors("LeaseSet2", ls.OfflineSignature(), m.Offline, m.Dest.SigType); err != nil {
		return err
	}
	if err := samePairs("LeaseSet2.Options", ls.Options(), m.Options); err != nil {
		return err
	}
	if ls.EncryptionKeyCount() != len(m.Keys) || len(ls.EncryptionKeys()) != len(m.Keys) {
		return fmt.Errorf("LeaseSet2 key count %d, encoded %d", ls.EncryptionKeyCount(), len(m.Keys))
	}
	for i, k := range ls.EncryptionKeys() {
		if int(k.KeyType) != m.Keys[i].Type || int(k.KeyLen) != m.Keys[i].Len || !bytes.Equal(k.KeyData, m.Keys[i].Data) {
			return fmt.Errorf("LeaseSet2 key %d differs (type %d/%d len %d/%d)", i, k.KeyType, m.Keys[i].Type, k.KeyLen, m.Keys[i].Len)
		}
	}
	if ls.LeaseCount() != len(m.Leases) {
		return fmt.Errorf("LeaseSet2 lease count %d, encoded %d", ls.LeaseCount(), len(m.Leases))
	}
	for i, l := range ls.Leases() {
		if !bytes.Equal(l.Bytes(), m.Leases[i].Encode()) {
			return fmt.Errorf("LeaseSet2 lease %d differs", i)
		}
	}
	sg := ls.Signature()
	if !bytes.Equal(sg.Bytes(), m.Sig) || sg.Type() != m.OuterSigType() {
		return fmt.Errorf("LeaseSet2 signature differs (type %d, encoded %d)", sg.Type(), m.OuterSigType())
	}
	// B: constructor with the same field values
	priv, perr := libkeys.SigPriv(outer)
	strict := true
	for _, k := range m.Keys {
		if n, ok := model.EncPubLen[k.Type]; ok && n != k.Len {
			strict = false
		}
	}
	if perr == nil && strict && len(m.Leases) >= 1 && m.Flags&0xfff8 == 0 {
		dest, err := libkeys.ParsedDest(m.Dest)
		if err != nil {
			return err
		}
		var off *offline_signature.OfflineSignature
		if m.Offline != nil {
			o, err := offline_signature.NewOfflineSignature(m.Offline.Expires, uint16(m.Offline.TType), m.Offline.TKey, m.Offline.Sig, uint16(m.Dest.SigType))
			if err != nil {
				return fmt.Errorf("NewOfflineSignature rejected well-formed fields: %v", err)
			}
			off = &o
		}
		var opts data.Mapping
		if len(m.Options) > 0 {
			mm := map[string]string{}
			for _, p := range m.Options {
				mm[string(p.K)] = string(p.V)
			}
			mp, err := data.GoMapToMapping(mm)
			if err != nil {
				return err
			}
			opts = *mp
		}
		var keys []lease_set2.EncryptionKey
		for _, k := range m.Keys {
			keys = append(keys, lease_set2.EncryptionKey{KeyType: uint16(k.Type), KeyLen: uint16(k.Len), KeyData: k.Data})
		}
		var leases []lease.Lease2
		for _, l := range m.Leases {
			var x lease.Lease2
			copy(x[:], l.Encode())
			leases = append(leases, x)
		}
		nls, err := lease_set2.NewLeaseSet2(dest, m.Published, m.Expires, m.Flags, off, opts, keys, leases, priv)
		if err != nil {
			return fmt.Errorf("NewLeaseSet2 rejected well-formed arguments: %v", err)
		}
		nb, err := nls.Bytes()
		if err != nil {
			return err
		}
		back, n, err := model.DecodeLS2(nb)
		if err != nil || n != len(nb) {
			return fmt.Errorf("independent decoder rejects NewLeaseSet2 output: %v", err)
		}
		if err := sameBody("NewLeaseSet2", nb, len(back.Sig), m.SignedPart()[1:]); err != nil {
			return err
		}
		r.Class("ls2:constructor")
	}
	r.Class(fmt.Sprintf("ls2:sig%d", m.Dest.SigType))
	if m.Offline != nil {
		r.Class("ls2:offline")
	}
	if len(m.Options) > 0 {
		r.Class("ls2:options")
	}
	if len(m.Leases) == 0 {
		r.Class("ls2:zero-leases")
	}
	if len(m.Options) > 0 || m.Offline != nil || len(m.Leases) >= 2 || len(m.Keys) >= 2 {
		r.NonTrivial(c, []byte("ls2"), enc)
	}
	return nil
}

func checkMeta(c Case, r *ev.Rec) error {
	m, _, _ := c.Meta.Build()
	enc := m.Encode()
	ls, rem, err := meta_leaseset.ReadMetaLeaseSet(withSuffix(enc))
	if err != nil {
		return fmt.Errorf("ReadMetaLeaseSet rejected a MetaLeaseSet in the library-documented layout (%d bytes, %d entries, %d options, offline %v): %v", len(enc), len(m.Entries), len(m.Options), m.Offline != nil, err)
	}
	if !bytes.Equal(rem, suffix) {
		return fmt.Errorf("ReadMetaLeaseSet consumed %d bytes, the encoding is %d", len(enc)+3-len(rem), len(enc))
	}
	if err := headerAccessors("MetaLeaseSet", ls.Destination(), ls.Published(), ls.Expires(), ls.Flags(), ls.PublishedTime(), ls.ExpirationTime(), m.Header); err != nil {
		return err
	}
	if err := offlineAccessors("MetaLeaseSet", ls.OfflineSignature(), m.Offline, m.Dest.SigType); err != nil {
		return err
	}
	if err := samePairs("MetaLeaseSet.Options", ls.Options(), m.Options); err != nil {
		return err
	}
	if ls.NumEntries() != len(m.Entries) || len(ls.Entries()) != len(m.Entries) {
		return fmt.Errorf("MetaLeaseSet entry count %d, encoded %d", ls.NumEntries(), len(m.Entries))
	}
	for i := range ls.Entries() {
		e, err := ls.GetEntry(i)
		if err != nil {
			return err
		}
		w := m.Entries[i]
		if e.Hash() != w.Hash || e.Type() != w.Type || e.Expires() != w.Expires || e.Cost() != w.Cost || e.ExpiresTime().Unix() != int64(w.Expires) {
			return fmt.Errorf("MetaLeaseSet entry %d fixed fields differ", i)
		}
		if err := samePairs(fmt.Sprintf("MetaLeaseSet entry %d properties", i), e.Properties(), w.Props); err != nil {
			return err
		}
	}
	sg := ls.Signature()
	if !bytes.Equal(sg.Bytes(), m.Sig) || sg.Type() != m.OuterSigType() {
		return fmt.Errorf("MetaLeaseSet signature differs")
	}
	if m.Offline != nil {
		r.Class("meta:offline")
	}
	if len(m.Options) > 0 {
		r.Class("meta:options")
	}
	r.NonTrivial(c, []byte("meta"), enc)
	return nil
}

// the layout common.md defines (MetaLease 40 bytes + revocation list)
func checkMetaSpec(c Case, r *ev.Rec) error {
	h, _, outer := c.Meta.Header.Build()
	m := model.SpecMetaLS{Header: h, Options: c.Meta.Options.Build()}
	for _, e := range c.Meta.Entries {
		ml := model.SpecMetaLease{Cost: e.Cost, End: e.Expires}
		copy(ml.Hash[:], model.Fill(32, e.Seed))
		ml.Flags = [3]byte{0, 0, e.Type & 0x0f}
		m.Leases = append(m.Leases, ml)
	}
	for i := 0; i < c.NRev; i++ {
		var h [32]byte
		copy(h[:], model.Fill(32, uint64(i)+91))
		m.Revocations = append(m.Revocations, h)
	}
	if outer != nil {
		m.Sig = outer.Sign(m.SignedPart())
	} else {
		m.Sig = model.Fill(model.SigLen[h.OuterSigType()], 1)
	}
	enc := m.Encode()
	ls, rem, err := meta_leaseset.ReadMetaLeaseSet(withSuffix(enc))
	ok := err == nil && bytes.Equal(rem, suffix) && ls.NumEntries() == len(m.Leases)
	if ok {
		for i, e := range ls.Entries() {
			if e.Hash() != m.Leases[i].Hash || e.Cost() != m.Leases[i].Cost || e.Expires() != m.Leases[i].End {
				ok = false
			}
		}
	}
	if !ok {
		if r.Known("F-META-SPEC", c) {
			return nil
		}
		return fmt.Errorf("ReadMetaLeaseSet does not read a MetaLeaseSet encoded as common.md defines it (MetaLease = hash|flags(3)|cost|end_date, then numr revocations): err %v", err)
	}
	r.NonTrivial(c, []byte("metaspec"), enc)
	return nil
}

func checkELS(c Case, r *ev.Rec) error {
	m, _, outer := c.ELS.Build()
	enc := m.Encode()
	ls, rem, err := encrypted_leaseset.ReadEncryptedLeaseSet(withSuffix(enc))
	if err != nil {
		return fmt.Errorf("ReadEncryptedLeaseSet rejected a well-formed EncryptedLeaseSet (sig %d, inner %d, offline %v): %v", m.SigType, len(m.Inner), m.Offline != nil, err)
	}
	if !bytes.Equal(rem, suffix) {
		return fmt.Errorf("ReadEncryptedLeaseSet consumed %d bytes, the encoding is %d", len(enc)+3-len(rem), len(enc))
	}
	if int(ls.SigType()) != m.SigType || !bytes.Equal(ls.BlindedPublicKey(), m.Blinded) || ls.Published() != m.Published || ls.Expires() != m.Expires || ls.Flags() != m.Flags ||
		int(ls.InnerLength()) != len(m.Inner) || !bytes.Equal(ls.EncryptedInnerData(), m.Inner) {
		return fmt.Errorf("EncryptedLeaseSet accessors differ from the encoded fields")
	}
	if ls.PublishedTime().Unix() != int64(m.Published) || ls.ExpirationTime().Unix() != int64(m.Published)+int64(m.Expires) {
		return fmt.Errorf("EncryptedLeaseSet times differ")
	}
	if err := offlineAccessors("EncryptedLeaseSet", ls.OfflineSignature(), m.Offline, m.SigType); err != nil {
		return err
	}
	sg := ls.Signature()
	if !bytes.Equal(sg.Bytes(), m.Sig) || sg.Type() != m.OuterSigType() {
		return fmt.Errorf("EncryptedLeaseSet signature differs")
	}
	// B
	if outer != nil && (outer.Type == 7 || outer.Type == 11) {
		var off *offline_signature.OfflineSignature
		if m.Offline != nil {
			o, err := offline_signature.NewOfflineSignature(m.Offline.Expires, uint16(m.Offline.TType), m.Offline.TKey, m.Offline.Sig, uint16(m.SigType))
			if err != nil {
				return err
			}
			off = &o
		}
		n, err := encrypted_leaseset.NewEncryptedLeaseSet(uint16(m.SigType), m.Blinded, m.Published, m.Expires, m.Flags, off, m.Inner, outer.Priv)
		if err != nil {
			return fmt.Errorf("NewEncryptedLeaseSet rejected well-formed arguments: %v", err)
		}
		nb, err := n.Bytes()
		if err != nil {
			return err
		}
		back, cnt, err := model.DecodeELS(nb)
		if err != nil || cnt != len(nb) {
			return fmt.Errorf("independent decoder rejects NewEncryptedLeaseSet output: %v", err)
		}
		if err := sameBody("NewEncryptedLeaseSet", nb, len(back.Sig), m.SignedPart()[1:]); err != nil {
			return err
		}
		r.Class("els:constructor")
	}
	r.NonTrivial(c, []byte("els"), enc)
	return nil
}

func checkAddr(c Case, r *ev.Rec) error {
	m := c.Addr.Build()
	enc := m.Encode()
	a, rem, err := router_address.ReadRouterAddress(withSuffix(enc))
	if err != nil {
		return fmt.Errorf("ReadRouterAddress rejected a well-formed address (style %q, %d options): %v", m.Style, len(m.Options), err)
	}
	if !bytes.Equal(rem, suffix) {
		return fmt.Errorf("ReadRouterAddress consumed %d bytes, the encoding is %d", len(enc)+3-len(rem), len(enc))
	}
	ex := a.Expiration()
	st, serr := a.TransportStyle().Data()
	if a.Cost() != int(m.Cost) || !bytes.Equal(ex[:], model.U64(m.Expiration)) || serr != nil || st != string(m.Style) {
		return fmt.Errorf("RouterAddress accessors differ (cost %d/%d, style %q/%q)", a.Cost(), m.Cost, st, m.Style)
	}
	if err := samePairs("RouterAddress.Options", a.Options(), m.Options); err != nil {
		return err
	}
	for _, p := range m.Options {
		k, _ := data.ToI2PString(string(p.K))
		got := a.GetOption(k)
		// first pair with that key wins in a list without duplicates
		if len(got) == 0 || string(got[1:]) != string(p.V) {
			return fmt.Errorf("RouterAddress.GetOption(%q) = % x, encoded %q", p.K, got, p.V)
		}
	}
	// B (the constructor always stores a null expiration and wants a non-empty style)
	if len(m.Style) > 0 {
		mm := map[string]string{}
		for _, p := range m.Options {
			mm[string(p.K)] = string(p.V)
		}
		if len(mm) == 0 && m.Cost%2 == 0 {
			mm = nil // "no options" as a nil map
		}
		n, err := router_address.NewRouterAddress(m.Cost, time.Unix(0, 0), string(m.Style), mm)
		if err != nil {
			return fmt.Errorf("NewRouterAddress rejected well-formed arguments: %v", err)
		}
		_, cnt, err := model.DecodeRouterAddr(n.Bytes())
		want := m
		want.Expiration = 0
		if err != nil || cnt != len(n.Bytes()) {
			return fmt.Errorf("independent decoder rejects NewRouterAddress output: %v", err)
		}
		if err := sameBody("NewRouterAddress", n.Bytes(), 0, want.Encode()); err != nil {
			return err
		}
	}
	if len(m.Options) > 0 {
		r.NonTrivial(c, []byte("addr"), enc)
	}
	return nil
}

func checkRI(c Case, r *ev.Rec) error {
	m, key := c.RI.Build()
	enc := m.Encode()
	info, rem, err := router_info.ReadRouterInfo(withSuffix(enc))
	if err != nil {
		return fmt.Errorf("ReadRouterInfo rejected a well-formed RouterInfo (sig %d, %d addresses, %d options): %v", m.Ident.SigType, len(m.Addrs), len(m.Options), err)
	}
	if !bytes.Equal(rem, suffix) {
		return fmt.Errorf("ReadRouterInfo consumed %d bytes, the encoding is %d", len(enc)+3-len(rem), len(enc))
	}
	if err := identAccessors("RouterInfo.RouterIdentity", info.RouterIdentity().KeysAndCert, m.Ident); err != nil {
		return err
	}
	if !bytes.Equal(info.Published().Bytes(), model.U64(m.Published)) || info.RouterAddressCount() != len(m.Addrs) || len(info.RouterAddresses()) != len(m.Addrs) || info.PeerSize() != 0 {
		return fmt.Errorf("RouterInfo published/size/peer_size differ from the encoded fields")
	}
	for i, a := range info.RouterAddresses() {
		if !bytes.Equal(a.Bytes(), m.Addrs[i].Encode()) {
			return fmt.Errorf("RouterInfo address %d differs", i)
		}
	}
	if err := samePairs("RouterInfo.Options", info.Options(), m.Options); err != nil {
		return err
	}
	sg := info.Signature()
	if !bytes.Equal(sg.Bytes(), m.Sig) || sg.Type() != m.Ident.SigType {
		return fmt.Errorf("RouterInfo signature differs")
	}
	// B: constructor (Ed25519 only, KEY certificate, styles non-empty, null expirations)
	cons := m.Ident.SigType == 7 && m.Ident.Cert.Type == 5 && m.Published < 1<<63
	for _, a := range m.Addrs {
		if len(a.Style) == 0 || a.Expiration != 0 {
			cons = false
		}
	}
	if cons {
		rid, err := libkeys.RouterIdent(m.Ident)
		if err != nil {
			return err
		}
		var addrs []*router_address.RouterAddress
		for _, a := range m.Addrs {
			mm := map[string]string{}
			for _, p := range a.Options {
				mm[string(p.K)] = string(p.V)
			}
			if len(mm) == 0 && a.Cost%2 == 0 {
				mm = nil
			}
			ra, err := router_address.NewRouterAddress(a.Cost, time.Unix(0, 0), string(a.Style), mm)
			if err != nil {
				return err
			}
			addrs = append(addrs, ra)
		}
		mm := map[string]string{}
		for _, p := range m.Options {
			mm[string(p.K)] = string(p.V)
		}
		priv, err := libkeys.SigPriv(key)
		if err != nil {
			return err
		}
		n, err := router_info.NewRouterInfo(rid, time.UnixMilli(int64(m.Published)), addrs, mm, priv, 7)
		if err != nil {
			return fmt.Errorf("NewRouterInfo rejected well-formed arguments: %v", err)
		}
		nb, err := n.Bytes()
		if err != nil {
			return err
		}
		back, cnt, err := model.DecodeRouterInfo(nb)
		if err != nil || cnt != len(nb) {
			return fmt.Errorf("independent decoder rejects NewRouterInfo output: %v", err)
		}
		if err := sameBody("NewRouterInfo", nb, len(back.Sig), m.SignedPart()); err != nil {
			return err
		}
		r.Class("ri:constructor")
	}
	r.Class(fmt.Sprintf("ri:sig%d", m.Ident.SigType))
	if len(m.Addrs) >= 1 || len(m.Options) > 0 {
		r.NonTrivial(c, []byte("ri"), enc)
	}
	return nil
}

func checkOffline(c Case, r *ev.Rec) error {
	id, dk := c.LS2.Header.Dest.Build()
	m, _ := c.LS2.Header.Offline.Build(id.SigType, dk)
	enc := m.Encode()
	o, rem, err := offline_signature.ReadOfflineSignature(withSuffix(enc), uint16(id.SigType))
	if err != nil || !bytes.Equal(rem, suffix) {
		return fmt.Errorf("ReadOfflineSignature(transient %d, destination %d): %v (rem %d)", m.TType, id.SigType, err, len(rem))
	}
	if err := offlineAccessors("OfflineSignature", &o, &m, id.SigType); err != nil {
		return err
	}
	n, err := offline_signature.NewOfflineSignature(m.Expires, uint16(m.TType), m.TKey, m.Sig, uint16(id.SigType))
	if err != nil || !bytes.Equal(n.Bytes(), enc) {
		return fmt.Errorf("NewOfflineSignature does not produce the specification encoding (%v)", err)
	}
	r.NonTrivial(c, []byte("offline"), enc)
	return nil
}

func check(c Case, r *ev.Rec) error {
	r.Class("kind:" + c.Kind)
	switch c.Kind {
	case "ident":
		return checkIdent(c, r)
	case "lease":
		return checkLease(c, r)
	case "ls":
		return checkLS(c, r)
	case "ls2":
		return checkLS2(c, r)
	case "meta":
		return checkMeta(c, r)
	case "metaspec":
		return checkMetaSpec(c, r)
	case "els":
		return checkELS(c, r)
	case "addr":
		return checkAddr(c, r)
	case "ri":
		return checkRI(c, r)
	case "offline":
		return checkOffline(c, r)
	}
	return nil
}

func genCase(t *rapid.T) Case {
	c := Case{Kind: rapid.SampledFrom([]string{"ident", "lease", "ls", "ls2", "ls2", "ls2", "meta", "meta", "metaspec", "els", "addr", "ri", "ri", "offline"}).Draw(t, "kind")}
	switch c.Kind {
	case "ident":
		s := gen.Ident(t, "id", []int{0, 1, 2, 7, 8, 11}, []int{0, 4, 5, 6, 7})
		c.ID = &s
	case "lease":
		l := gen.Leases(t, "l")
		if len(l) == 0 {
			l = []gen.LeaseSpec{{Seed: 1, Tunnel: 2, EndMs: 3}}
		}
		l2 := gen.Leases2(t, "l2", 1)
		c.L, c.L2 = &l[0], &l2[0]
	case "ls":
		s := gen.LeaseSetG(t, "ls")
		c.LS = &s
	case "ls2":
		s := gen.LS2G(t, "ls2", nil)
		if rapid.IntRange(0, 5).Draw(t, "zeroleases") == 0 {
			s.Leases = nil
		}
		c.LS2 = &s
	case "meta", "metaspec":
		s := gen.MetaG(t, "meta", nil)
		c.Meta = &s
		if c.Kind == "metaspec" {
			c.NRev = rapid.IntRange(0, 3).Draw(t, "nrev")
		}
	case "els":
		s := gen.ELSG(t, "els", nil)
		c.ELS = &s
	case "addr":
		s := gen.AddrG(t, "addr")
		c.Addr = &s
	case "ri":
		s := gen.RouterInfoG(t, "ri", nil)
		if rapid.Bool().Draw(t, "consable") {
			s.Ident.SigType, s.Ident.NullCert = 7, false
			for i := range s.Addrs {
				s.Addrs[i].Expiration = 0
				if s.Addrs[i].Style == "" {
					s.Addrs[i].Style = "4e54435032"
				}
			}
		}
		c.RI = &s
	case "offline":
		s := gen.LS2Spec{Header: gen.HeaderG(t, "hdr", nil, nil)}
		s.Header.Offline = gen.OfflineG(t, "off", []int{0, 1, 2, 3, 4, 5, 6, 7, 8, 11})
		c.LS2 = &s
	}
	return c
}

var prop = &ev.Prop[Case]{Sub: "spec", Quick: 160000, Thorough: 1500000, Gen: genCase, Check: check}

func TestRegress(t *testing.T) { prop.Regress(t) }
func TestReplay(t *testing.T)  { prop.Replay(t) }
func TestProp(t *testing.T)    { prop.Run(t) }
