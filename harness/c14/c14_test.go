// Package c14 decides property C14: constructor success implies Validate
// success implies a clean wire round trip; documented structural defects are
// rejected by constructor and validator alike.
package c14

import (
	"bytes"
	stded "crypto/ed25519"
	"fmt"
	"github.com/go-i2p/crypto/types"
	"testing"
	"time"

	"github.com/go-i2p/common/certificate"
	"github.com/go-i2p/common/data"
	"github.com/go-i2p/common/destination"
	"github.com/go-i2p/common/encrypted_leaseset"
	"github.com/go-i2p/common/key_certificate"
	"github.com/go-i2p/common/keys_and_cert"
	"github.com/go-i2p/common/lease"
	"github.com/go-i2p/common/lease_set"
	"github.com/go-i2p/common/lease_set2"
	"github.com/go-i2p/common/offline_signature"
	"github.com/go-i2p/common/router_address"
	"github.com/go-i2p/common/router_identity"
	"github.com/go-i2p/common/router_info"
	"github.com/go-i2p/common/signature"
	elgamal "github.com/go-i2p/crypto/elg"
	"pgregory.net/rapid"

	"verif/internal/ev"
	"verif/internal/gen"
	"verif/internal/libkeys"
	"verif/internal/model"
)

const rule = "cases: constructor argument tuples for every structure that has both a constructor and a validator - Certificate (+builder), KeysAndCert, Destination, RouterIdentity, RouterAddress, RouterInfo, LeaseSet, LeaseSet2, EncryptedLeaseSet, OfflineSignature, Signature, Mapping (also maps of 125..135 pairs whose encoded body lies within +-2000 bytes of the 65,535 limit, through GoMapToMapping, MappingValues.Add + ValuesToMapping and NewRouterAddress) - valid tuples and single-defect variants of the kinds the validators document (key length != its type's length at any key index, KeyLen != len(KeyData), 0/17 keys or leases, 256 .. 65,537 router addresses (and the valid maximum of 255), flag <-> offline block mismatch, reserved flag bits, signature or key length != type, unknown type, zero expires, empty or over-long transport style, nil option map, wrong padding size, prohibited key type). Oracles: constructor ok => Validate()==nil; Validate()==nil (constructed or parsed) => Bytes() ok => Read* ok with empty remainder and the same bytes; defect => the constructor rejects, and the validator rejects the same defect when it is presented through the parser or exported fields. Expiry rules are excluded (far-future dates). Non-trivial: a defect variant, or a valid tuple with >= 2 optional parts; distinct by (kind, defect, arguments)."

func TestMain(m *testing.M) { ev.Main(m, "C14", rule) }

type Case struct {
	Kind   string              `json:"kind"`
	Defect string              `json:"defect,omitempty"`
	LS2    *gen.LS2Spec        `json:"ls2,omitempty"`
	ELS    *gen.ELSSpec        `json:"els,omitempty"`
	LS     *gen.LeaseSetSpec   `json:"ls,omitempty"`
	RI     *gen.RouterInfoSpec `json:"ri,omitempty"`
	ID     *gen.IdentSpec      `json:"ident,omitempty"`
	Addr   *gen.AddrSpec       `json:"addr,omitempty"`
	N      int                 `json:"n,omitempty"`
	Typ    int                 `json:"typ,omitempty"`
}

func pairsToMap(p gen.Pairs) map[string]string {
	m := map[string]string{}
	for _, kv := range p.Build() {
		m[string(kv.K)] = string(kv.V)
	}
	return m
}

func farFuture() time.Time { return time.Unix(4000000000, 0) }

// roundTrip: Validate ok => Bytes ok => parse ok, empty remainder, same bytes.
func roundTrip(what string, bytesFn func() ([]byte, error), parse func([]byte) ([]byte, []byte, error)) error {
	b, err := bytesFn()
	if err != nil {
		return fmt.Errorf("%s passes validation but does not serialise: %v", what, err)
	}
	out, rem, err := parse(b)
	if err != nil {
		return fmt.Errorf("%s passes validation but its bytes do not parse back: %v", what, err)
	}
	if len(rem) != 0 {
		return fmt.Errorf("%s passes validation but parsing its bytes leaves %d bytes", what, len(rem))
	}
	if !bytes.Equal(out, b) {
		return fmt.Errorf("%s passes validation but re-parsing gives a different serialisation", what)
	}
	return nil
}

// ---------------------------------------------------------------------------

func checkLS2(c Case, r *ev.Rec) error {
	s := *c.LS2
	id, key := s.Header.Dest.Build()
	dest, err := libkeys.ParsedDest(id)
	if err != nil {
		return err
	}
	flags := s.Header.Flags &^ 1
	var off *offline_signature.OfflineSignature
	signer := key
	if s.Header.Offline != nil {
		tk := model.NewSignKey(s.Header.Offline.TType, s.Header.Offline.Seed)
		exp := s.Header.Offline.Expires | 1
		o, err := offline_signature.CreateOfflineSignature(exp, uint16(tk.Type), tk.Pub, stded.PrivateKey(key.Priv), uint16(id.SigType))
		if err != nil {
			return fmt.Errorf("CreateOfflineSignature: %v", err)
		}
		off, signer, flags = &o, tk, flags|1
	}
	var opts data.Mapping
	if len(s.Options) > 0 {
		mp, err := data.GoMapToMapping(pairsToMap(s.Options))
		if err != nil {
			return err
		}
		opts = *mp
	}
	var keys []lease_set2.EncryptionKey
	for _, k := range s.Keys {
		mk := k.Build()
		keys = append(keys, lease_set2.EncryptionKey{KeyType: uint16(mk.Type), KeyLen: uint16(mk.Len), KeyData: mk.Data})
	}
	var leases []lease.Lease2
	for _, l := range s.Leases {
		nl, _ := lease.NewLease2(data.Hash(l.Build().GW), l.Tunnel, farFuture())
		leases = append(leases, *nl)
	}
	// inject the defect
	parserProbe := false // the same defect can be presented to Validate through the parser
	switch c.Defect {
	case "reserved-flag":
		flags |= 1 << uint(3+c.N%13)
		parserProbe = true
	case "keylen-vs-type":
		i := (c.N / 2) % len(keys) // any position, not only the first key
		keys[i].KeyType, keys[i].KeyLen, keys[i].KeyData = 4, 31, model.Fill(31, 1)
		if c.N%2 == 1 {
			keys[i].KeyType, keys[i].KeyLen, keys[i].KeyData = 0, 255, model.Fill(255, 1)
		}
		parserProbe = true
		r.Class(fmt.Sprintf("ls2:defect-at-key-index:%d", min(i, 2)))
	case "keylen-vs-data":
		if i := (c.N / 2) % len(keys); c.N%3 == 0 {
			// the data is longer than declared by exactly 2^16: equal modulo the width of the length field
			keys[i].KeyData = append(append([]byte{}, keys[i].KeyData...), make([]byte, 65536)...)
		} else {
			keys[i].KeyLen++
		}
	case "no-keys":
		keys = nil
	case "17-keys":
		for len(keys) < 17 {
			keys = append(keys, keys[0])
		}
	case "17-leases":
		for len(leases) < 17 {
			leases = append(leases, leases[0])
		}
	case "no-leases":
		leases = nil
	case "flag-without-block":
		flags |= 1
		off = nil
	case "block-without-flag":
		if off == nil {
			tk := model.NewSignKey(7, 5)
			o, _ := offline_signature.CreateOfflineSignature(9, 7, tk.Pub, stded.PrivateKey(key.Priv), uint16(id.SigType))
			off = &o
		}
		flags &^= 1
	}
	priv, err := libkeys.SigPriv(signer)
	if err != nil {
		return err
	}
	ls, err := lease_set2.NewLeaseSet2(dest, s.Header.Published, s.Header.Expires, flags, off, opts, keys, leases, priv)
	if c.Defect != "" {
		r.Class("ls2:defect:" + c.Defect)
		if err == nil {
			verr := ls.Validate()
			return fmt.Errorf("NewLeaseSet2 accepted the defect %q (Validate on the result: %v)", c.Defect, verr)
		}
		if parserProbe {
			// present the same defect to the validator through the parser
			m, _, _ := s.Build()
			if c.Defect == "reserved-flag" {
				m.Flags |= 1 << uint(3+c.N%13)
			} else {
				i := (c.N / 2) % len(keys)
				m.Keys[i] = model.EncKey{Type: int(keys[i].KeyType), Len: int(keys[i].KeyLen), Data: keys[i].KeyData}
			}
			if p, _, perr := lease_set2.ReadLeaseSet2(m.Encode()); perr == nil {
				if p.Validate() == nil {
					return fmt.Errorf("the constructor rejects the defect %q but Validate() accepts the same defect on a parsed LeaseSet2", c.Defect)
				}
				r.Class("ls2:defect-probed-via-parser")
			}
		}
		r.NonTrivialStr(c, "ls2", c.Defect, fmt.Sprint(c.N), fmt.Sprint(s.Header.Dest.KeySeed))
		return nil
	}
	if err != nil {
		return fmt.Errorf("NewLeaseSet2 rejected a valid tuple: %v", err)
	}
	if err := ls.Validate(); err != nil {
		return fmt.Errorf("NewLeaseSet2 succeeded but Validate() fails: %v", err)
	}
	if err := roundTrip("LeaseSet2", ls.Bytes, func(b []byte) ([]byte, []byte, error) {
		p, rem, err := lease_set2.ReadLeaseSet2(b)
		if err != nil {
			return nil, nil, err
		}
		if verr := p.Validate(); verr != nil {
			return nil, nil, fmt.Errorf("parsed value fails Validate: %v", verr)
		}
		out, err := p.Bytes()
		return out, rem, err
	}); err != nil {
		return err
	}
	if off != nil || len(s.Options) > 0 {
		r.NonTrivialStr(c, "ls2-valid", fmt.Sprint(s.Header.Dest.KeySeed, len(keys), len(leases), len(s.Options), off != nil))
	}
	return nil
}

func checkELS(c Case, r *ev.Rec) error {
	s := *c.ELS
	bk := model.NewSignKey(s.SigType, s.KeySeed)
	flags := s.Flags &^ 1
	var off *offline_signature.OfflineSignature
	signer := bk
	if s.Offline != nil {
		tk := model.NewSignKey(s.Offline.TType, s.Offline.Seed)
		o, err := offline_signature.CreateOfflineSignature(s.Offline.Expires|1, uint16(tk.Type), tk.Pub, stded.PrivateKey(bk.Priv), uint16(s.SigType))
		if err != nil {
			return err
		}
		off, signer, flags = &o, tk, flags|1
	}
	inner := model.Fill(s.InnerLen, s.InnerSeed)
	key := bk.Pub
	sigType := uint16(s.SigType)
	expires := s.Expires
	switch c.Defect {
	case "zero-expires":
		expires = 0
	case "reserved-flag":
		flags |= 1 << uint(2+c.N%14)
	case "key-size":
		key = key[:31]
	case "unknown-sigtype":
		sigType = uint16([]int{9, 10, 12, 255, 65535}[c.N%5])
	case "inner-too-short":
		inner = inner[:c.N%61]
	case "flag-without-block":
		flags |= 1
		off = nil
	case "block-without-flag":
		if off == nil {
			tk := model.NewSignKey(7, 5)
			o, _ := offline_signature.CreateOfflineSignature(9, 7, tk.Pub, stded.PrivateKey(bk.Priv), uint16(s.SigType))
			off = &o
		}
		flags &^= 1
	}
	els, err := encrypted_leaseset.NewEncryptedLeaseSet(sigType, key, s.Published, expires, flags, off, inner, stded.PrivateKey(signer.Priv))
	if c.Defect != "" {
		r.Class("els:defect:" + c.Defect)
		if err == nil {
			return fmt.Errorf("NewEncryptedLeaseSet accepted the defect %q (Validate on the result: %v)", c.Defect, els.Validate())
		}
		// validator side: the reader runs Validate(); build the defective wire form where it is expressible
		m := model.ELS{SigType: int(sigType), Blinded: key, Published: s.Published, Expires: expires, Flags: flags, Inner: inner, Sig: model.Fill(64, 1)}
		if c.Defect == "zero-expires" || c.Defect == "reserved-flag" || c.Defect == "inner-too-short" {
			m.Flags &^= 1
			if p, _, perr := encrypted_leaseset.ReadEncryptedLeaseSet(append(m.Encode(), make([]byte, 80)...)); perr == nil && p.Validate() == nil {
				return fmt.Errorf("the constructor rejects the defect %q but reader + Validate() accept it", c.Defect)
			}
			r.Class("els:defect-probed-via-parser")
		}
		r.NonTrivialStr(c, "els", c.Defect, fmt.Sprint(c.N), fmt.Sprint(s.KeySeed))
		return nil
	}
	if err != nil {
		return fmt.Errorf("NewEncryptedLeaseSet rejected a valid tuple: %v", err)
	}
	if err := els.Validate(); err != nil {
		return fmt.Errorf("NewEncryptedLeaseSet succeeded but Validate() fails: %v", err)
	}
	if err := roundTrip("EncryptedLeaseSet", els.Bytes, func(b []byte) ([]byte, []byte, error) {
		p, rem, err := encrypted_leaseset.ReadEncryptedLeaseSet(b)
		if err != nil {
			return nil, nil, err
		}
		out, err := p.Bytes()
		return out, rem, err
	}); err != nil {
		return err
	}
	r.NonTrivialStr(c, "els-valid", fmt.Sprint(s.KeySeed, s.InnerLen, off != nil, flags))
	return nil
}

func checkOffline(c Case, r *ev.Rec) error {
	ttype, dtype := []int{0, 1, 2, 3, 4, 5, 6, 7, 8, 11}[c.N%10], []int{0, 1, 2, 3, 4, 5, 6, 7, 8, 11}[(c.N/10)%10]
	key := model.Fill(model.SigPubLen[ttype], 3)
	sig := model.Fill(model.SigLen[dtype], 4)
	expires := uint32(c.Typ) | 1
	defect := c.Defect
	switch defect {
	case "key-size":
		key = append(key, 0)
	case "key-size-short":
		key = key[:len(key)-1]
	case "sig-size":
		sig = sig[:len(sig)-1]
	case "unknown-transient":
		ttype = []int{9, 10, 12, 20, 255, 65535}[c.N%6]
	case "unknown-destination":
		dtype = []int{9, 10, 12, 20, 255, 65535}[c.N%6]
	case "zero-expires":
		expires = 0
	}
	o, err := offline_signature.NewOfflineSignature(expires, uint16(ttype), key, sig, uint16(dtype))
	if defect != "" {
		r.Class("offline:defect:" + defect)
		if err == nil {
			verr := o.ValidateStructure()
			if defect == "zero-expires" && verr != nil && r.Known("F-CTOR-OFFSIG", c) {
				return nil
			}
			return fmt.Errorf("NewOfflineSignature accepted the defect %q (ValidateStructure on the result: %v)", defect, verr)
		}
		r.NonTrivialStr(c, "offline", defect, fmt.Sprint(c.N))
		return nil
	}
	if err != nil {
		return fmt.Errorf("NewOfflineSignature rejected a valid tuple (transient %d, destination %d): %v", ttype, dtype, err)
	}
	if err := o.ValidateStructure(); err != nil {
		return fmt.Errorf("NewOfflineSignature succeeded but ValidateStructure() fails: %v", err)
	}
	if err := roundTrip("OfflineSignature", func() ([]byte, error) { return o.Bytes(), nil }, func(b []byte) ([]byte, []byte, error) {
		p, rem, err := offline_signature.ReadOfflineSignature(b, uint16(dtype))
		if err != nil {
			return nil, nil, err
		}
		if verr := p.ValidateStructure(); verr != nil {
			return nil, nil, fmt.Errorf("parsed value fails ValidateStructure: %v", verr)
		}
		return p.Bytes(), rem, nil
	}); err != nil {
		return err
	}
	r.NonTrivialStr(c, "offline-valid", fmt.Sprint(ttype, dtype))
	return nil
}

func checkSignature(c Case, r *ev.Rec) error {
	typ := c.Typ
	n, known := model.SigLen[typ]
	if !known {
		n = 64
	}
	b := model.Fill(n, 5)
	switch c.Defect {
	case "len-short":
		if n > 0 {
			b = b[:n-1]
		}
	case "len-long":
		b = append(b, 0)
	}
	s, err := signature.NewSignatureFromBytes(b, typ)
	defect := c.Defect != "" || !known
	if defect {
		r.Class("signature:defect")
		if err == nil {
			return fmt.Errorf("NewSignatureFromBytes(%d bytes, type %d) accepted (Validate: %v)", len(b), typ, s.Validate())
		}
		r.NonTrivialStr(c, "sig", c.Defect, fmt.Sprint(typ))
		return nil
	}
	if err != nil {
		return fmt.Errorf("NewSignatureFromBytes rejected %d bytes of type %d: %v", len(b), typ, err)
	}
	if err := s.Validate(); err != nil {
		return fmt.Errorf("NewSignatureFromBytes succeeded but Validate() fails: %v", err)
	}
	p, rem, err := signature.ReadSignature(s.Bytes(), typ)
	if err != nil || len(rem) != 0 || !bytes.Equal(p.Bytes(), b) || p.Validate() != nil {
		return fmt.Errorf("Signature round trip failed: %v", err)
	}
	r.NonTrivialStr(c, "sig-valid", fmt.Sprint(typ))
	return nil
}

func checkCert(c Case, r *ev.Rec) error {
	ct := c.Typ
	payload := model.Fill(c.N, 6)
	valid := ct >= 0 && ct <= 5
	switch ct {
	case 0, 2:
		valid = valid && len(payload) == 0
	case 3:
		valid = valid && (len(payload) == 40 || len(payload) == 72)
	}
	cert, err := certificate.NewCertificateWithType(uint8(ct), payload)
	b, berr := certificate.NewCertificateBuilder().WithType(uint8(ct))
	var bc *certificate.Certificate
	if berr == nil {
		bc, berr = b.WithPayload(payload).Build()
	}
	if !valid {
		r.Class("cert:defect")
		if err == nil {
			return fmt.Errorf("NewCertificateWithType(type %d, %d payload bytes) accepted a documented defect", ct, len(payload))
		}
		if berr == nil {
			return fmt.Errorf("CertificateBuilder built (type %d, %d payload bytes), which NewCertificateWithType rejects: %v", ct, len(payload), err)
		}
		r.NonTrivialStr(c, "cert", fmt.Sprint(ct, len(payload)))
		return nil
	}
	if err != nil {
		return fmt.Errorf("NewCertificateWithType rejected a valid tuple (type %d, %d bytes): %v", ct, len(payload), err)
	}
	if !cert.IsValid() {
		return fmt.Errorf("constructed certificate is not IsValid()")
	}
	_ = bc
	out, rem, rerr := certificate.ReadCertificate(cert.Bytes())
	if rerr != nil || len(rem) != 0 || !bytes.Equal(out.Bytes(), cert.Bytes()) {
		return fmt.Errorf("certificate round trip failed: %v (rem %d)", rerr, len(rem))
	}
	r.NonTrivialStr(c, "cert-valid", fmt.Sprint(ct, len(payload)))
	return nil
}

func checkIdent(c Case, r *ev.Rec) error {
	id, _ := c.ID.Build()
	if id.Cert.Type != 5 {
		return nil
	}
	kc, err := libkeys.KeyCert(id)
	if err != nil {
		return err
	}
	pk, err := libkeys.PubKey(id.EncType, id.Enc)
	if err != nil {
		return err
	}
	sk, err := libkeys.SigPub(id.SigType, id.Sig)
	if err != nil {
		return err
	}
	pad := append([]byte{}, id.Pad...)
	switch c.Defect {
	case "padding-size":
		if c.N%2 == 0 || len(pad) == 0 {
			pad = append(pad, 0)
		} else {
			pad = pad[:len(pad)-1]
		}
	case "pubkey-type":
		other := 0
		if id.EncType == 0 {
			other = 4
		}
		pk, _ = libkeys.PubKey(other, model.Fill(model.EncPubLen[other], 1))
	case "sigkey-type":
		other := 7
		if model.SigPubLen[id.SigType] == 32 {
			other = 1
		}
		sk, _ = libkeys.SigPub(other, model.Fill(model.SigPubLen[other], 1))
	}
	k, err := keys_and_cert.NewKeysAndCert(kc, pk, pad, sk)
	if c.Defect != "" {
		r.Class("kac:defect:" + c.Defect)
		if err == nil {
			return fmt.Errorf("NewKeysAndCert accepted the defect %q (Validate: %v)", c.Defect, k.Validate())
		}
		if c.Defect != "padding-size" {
			// exported fields: the validator must reject the same defect
			direct := &keys_and_cert.KeysAndCert{KeyCertificate: kc, ReceivingPublic: pk, Padding: pad, SigningPublic: sk}
			if direct.Validate() == nil {
				return fmt.Errorf("NewKeysAndCert rejects the defect %q but KeysAndCert.Validate() accepts the same fields", c.Defect)
			}
		}
		r.NonTrivialStr(c, "kac", c.Defect, fmt.Sprint(id.SigType, id.EncType))
		return nil
	}
	if err != nil {
		return fmt.Errorf("NewKeysAndCert rejected a valid tuple: %v", err)
	}
	if err := k.Validate(); err != nil {
		return fmt.Errorf("NewKeysAndCert succeeded but Validate() fails: %v", err)
	}
	if err := roundTrip("KeysAndCert", k.Bytes, func(b []byte) ([]byte, []byte, error) {
		p, rem, err := keys_and_cert.ReadKeysAndCert(b)
		if err != nil {
			return nil, nil, err
		}
		if verr := p.Validate(); verr != nil {
			return nil, nil, verr
		}
		out, err := p.Bytes()
		return out, rem, err
	}); err != nil {
		return err
	}
	// wrappers: constructor and validator agree on the key-type policy
	destBad := id.SigType == 8 || id.EncType >= 5
	d, derr := destination.NewDestination(k)
	if (derr != nil) != destBad {
		return fmt.Errorf("NewDestination error=%v for key types %d/%d", derr, id.SigType, id.EncType)
	}
	if derr == nil {
		if err := d.Validate(); err != nil {
			return fmt.Errorf("NewDestination succeeded but Validate() fails: %v", err)
		}
		if err := roundTrip("Destination", d.Bytes, func(b []byte) ([]byte, []byte, error) {
			p, rem, err := destination.ReadDestination(b)
			if err != nil {
				return nil, nil, err
			}
			out, err := p.Bytes()
			return out, rem, err
		}); err != nil {
			return err
		}
	}
	riBad := destBad || id.SigType == 11
	ri, rerr := router_identity.NewRouterIdentityFromKeysAndCert(k)
	if (rerr != nil) != riBad {
		return fmt.Errorf("NewRouterIdentityFromKeysAndCert error=%v for key types %d/%d", rerr, id.SigType, id.EncType)
	}
	if rerr == nil {
		if err := ri.Validate(); err != nil {
			return fmt.Errorf("NewRouterIdentity succeeded but Validate() fails: %v", err)
		}
	}
	r.NonTrivialStr(c, "kac-valid", fmt.Sprint(id.SigType, id.EncType, c.ID.KeySeed))
	return nil
}

func checkAddr(c Case, r *ev.Rec) error {
	m := c.Addr.Build()
	style := string(m.Style)
	if c.Defect == "empty-style" {
		style = ""
	}
	if c.Defect == "style-too-long" {
		style = string(model.Fill(256+c.N%50, 6))
		a, err := router_address.NewRouterAddress(m.Cost, time.Unix(0, 0), style, pairsToMap(c.Addr.Options))
		r.Class("addr:defect:style-too-long")
		if err == nil {
			return fmt.Errorf("NewRouterAddress accepted a transport style of %d bytes (limit 255); Validate on the result: %v", len(style), a.Validate())
		}
		r.NonTrivialStr(c, "addr", "style-too-long", fmt.Sprint(len(style)))
		return nil
	}
	opts := pairsToMap(c.Addr.Options)
	if len(opts) == 0 && c.N%2 == 0 {
		opts = nil // a nil map is "no options", like an empty one
	}
	a, err := router_address.NewRouterAddress(m.Cost, time.Unix(0, 0), style, opts)
	if style == "" {
		r.Class("addr:defect:empty-style")
		if err == nil {
			return fmt.Errorf("NewRouterAddress accepted an empty transport style (Validate: %v)", a.Validate())
		}
		direct := &router_address.RouterAddress{TransportCost: nil, ExpirationDate: nil, TransportType: nil}
		if direct.Validate() == nil {
			return fmt.Errorf("RouterAddress.Validate() accepts an address without transport style")
		}
		r.NonTrivialStr(c, "addr", "empty-style")
		return nil
	}
	if err != nil {
		return fmt.Errorf("NewRouterAddress rejected a valid tuple: %v", err)
	}
	if err := a.Validate(); err != nil {
		return fmt.Errorf("NewRouterAddress succeeded but Validate() fails: %v", err)
	}
	if err := roundTrip("RouterAddress", func() ([]byte, error) { return a.Bytes(), nil }, func(b []byte) ([]byte, []byte, error) {
		p, rem, err := router_address.ReadRouterAddress(b)
		if err != nil {
			return nil, nil, err
		}
		if verr := p.Validate(); verr != nil {
			return nil, nil, fmt.Errorf("parsed value fails Validate: %v", verr)
		}
		return p.Bytes(), rem, nil
	}); err != nil {
		return err
	}
	// Mapping: GoMapToMapping => Validate
	mp, err := data.GoMapToMapping(pairsToMap(c.Addr.Options))
	if err != nil || mp.Validate() != nil || mp.Values().Validate() != nil {
		return fmt.Errorf("GoMapToMapping succeeded but Mapping.Validate() fails (%v)", err)
	}
	if len(m.Options) >= 2 {
		r.NonTrivialStr(c, "addr-valid", fmt.Sprint(m.Cost, style, len(m.Options)), fmt.Sprintf("%x", m.Encode()))
	}
	return nil
}

func checkRI(c Case, r *ev.Rec) error {
	s := *c.RI
	id, key := s.Ident.Build()
	rid, err := libkeys.RouterIdent(id)
	if err != nil {
		return err
	}
	var addrs []*router_address.RouterAddress
	for _, a := range s.Addrs {
		ma := a.Build()
		ra, err := router_address.NewRouterAddress(ma.Cost, time.Unix(0, 0), string(ma.Style), pairsToMap(a.Options))
		if err != nil {
			return err
		}
		addrs = append(addrs, ra)
	}
	// the address count is a one-byte field: 255 addresses are the most a RouterInfo can
	// carry, one more is out of range for constructor and validator alike
	if c.Defect == "too-many-addresses" || (c.Defect == "" && c.N%40 == 7) {
		if len(addrs) == 0 {
			ra, err := router_address.NewRouterAddress(3, time.Unix(0, 0), "NTCP2", map[string]string{"host": "10.1.2.3"})
			if err != nil {
				return err
			}
			addrs = append(addrs, ra)
		}
		want := 255
		if c.Defect != "" {
			want = 256 + c.N%45
			if c.N%3 == 0 {
				want = []int{256, 257, 511, 512, 513, 65535, 65536, 65537}[c.N/3%8]
			}
		}
		for i := 0; len(addrs) < want; i++ {
			addrs = append(addrs, addrs[i])
		}
		r.Class(fmt.Sprintf("ri:addresses>=255,defect=%v", c.Defect != ""))
	}
	priv, err := libkeys.SigPriv(key)
	if err != nil {
		return err
	}
	sigType := 7
	if c.Defect == "unsupported-sigtype" {
		sigType = []int{0, 1, 2, 8, 11, 99}[c.N%6]
	}
	ri, err := router_info.NewRouterInfo(rid, time.UnixMilli(int64(s.Published)), addrs, pairsToMap(s.Options), priv, sigType)
	if c.Defect != "" {
		if err == nil {
			return fmt.Errorf("NewRouterInfo accepted the defect %q (%d addresses; Validate on the result: %v)", c.Defect, len(addrs), ri.Validate())
		}
		r.NonTrivialStr(c, "ri", c.Defect, fmt.Sprint(c.N))
		return nil
	}
	if err != nil {
		return fmt.Errorf("NewRouterInfo rejected a valid tuple: %v", err)
	}
	if verr := ri.Validate(); verr != nil {
		if (len(addrs) == 0 || s.Published == 0) && r.Known("F-CTOR-RI", c) {
			return nil
		}
		return fmt.Errorf("NewRouterInfo succeeded (%d addresses, published %d) but Validate() fails: %v", len(addrs), s.Published, verr)
	}
	if err := roundTrip("RouterInfo", ri.Bytes, func(b []byte) ([]byte, []byte, error) {
		p, rem, err := router_info.ReadRouterInfo(b)
		if err != nil {
			return nil, nil, err
		}
		if verr := p.Validate(); verr != nil {
			return nil, nil, fmt.Errorf("parsed value fails Validate: %v", verr)
		}
		out, err := p.Bytes()
		return out, rem, err
	}); err != nil {
		return err
	}
	if len(addrs) >= 2 || len(s.Options) > 0 {
		r.NonTrivialStr(c, "ri-valid", fmt.Sprint(s.Ident.KeySeed, len(addrs), len(s.Options), s.Published))
	}
	return nil
}

func checkLS(c Case, r *ev.Rec) error {
	s := *c.LS
	id, key := s.Dest.Build()
	m, _ := s.Build()
	dest, err := libkeys.ParsedDest(id)
	if err != nil {
		return err
	}
	var ek elgamal.ElgPublicKey
	copy(ek[:], m.EncKey)
	rkType := id.SigType
	rkBytes := m.SigKey
	var leases []lease.Lease
	for _, l := range m.Leases {
		nl, _ := lease.NewLease(data.Hash(l.GW), l.Tunnel, farFuture())
		leases = append(leases, *nl)
	}
	switch c.Defect {
	case "17-leases":
		for len(leases) < 17 {
			nl, _ := lease.NewLease(data.Hash{1}, 1, farFuture())
			leases = append(leases, *nl)
		}
	case "signing-key-size":
		rkType = 7
		if model.SigPubLen[id.SigType] == 32 {
			rkType = 1
		}
		rkBytes = model.NewSignKey(rkType, 3).Pub
	}
	rk, err := libkeys.SigPub(rkType, rkBytes)
	if err != nil {
		return err
	}
	priv, err := libkeys.SigPriv(key)
	if err != nil {
		return err
	}
	var encKey types.ReceivingPublicKey = ek
	if c.Defect == "encryption-key-size" {
		if encKey, err = libkeys.PubKey(4, model.Fill(32, 9)); err != nil {
			return err
		}
	}
	r.Class(fmt.Sprintf("ls:dest-enc%d", id.EncType))
	ls, err := lease_set.NewLeaseSet(dest, encKey, rk, leases, priv)
	if c.Defect != "" {
		r.Class("ls:defect:" + c.Defect)
		if err == nil {
			return fmt.Errorf("NewLeaseSet accepted the defect %q (Validate: %v)", c.Defect, ls.Validate())
		}
		r.NonTrivialStr(c, "ls", c.Defect, fmt.Sprint(id.SigType))
		return nil
	}
	if err != nil {
		return fmt.Errorf("NewLeaseSet rejected a valid tuple: %v", err)
	}
	if err := ls.Validate(); err != nil {
		return fmt.Errorf("NewLeaseSet succeeded but Validate() fails: %v", err)
	}
	if err := roundTrip("LeaseSet", ls.Bytes, func(b []byte) ([]byte, []byte, error) {
		p, err := lease_set.ReadLeaseSet(b)
		if err != nil {
			return nil, nil, err
		}
		if verr := p.Validate(); verr != nil {
			return nil, nil, fmt.Errorf("parsed value fails Validate: %v", verr)
		}
		out, err := p.Bytes()
		return out, nil, err
	}); err != nil {
		return err
	}
	if len(leases) >= 2 {
		r.NonTrivialStr(c, "ls-valid", fmt.Sprint(id.SigType, len(leases), s.Seed))
	}
	return nil
}

// bigMap: N selects the number of pairs (125..135), Typ the distance of the encoded
// body from the 65,535-byte limit (may be negative). All strings stay within 255 bytes.
func bigMap(c Case) (map[string]string, []model.Pair) {
	n := 125 + c.N%11
	target := 65535 + c.Typ
	kl, vl := make([]int, n), make([]int, n)
	total := 0
	for i := range kl {
		kl[i], vl[i] = 240, 240
		total += 240 + 240 + 4
	}
	for i := 0; total != target && i < 64*n; i++ {
		j := i % n
		l := &kl[j]
		if (i/n)%2 == 1 {
			l = &vl[j]
		}
		switch {
		case total < target && *l < 255:
			*l++
			total++
		case total > target && *l > 3:
			*l--
			total--
		}
	}
	m := map[string]string{}
	for i := 0; i < n; i++ {
		k := append([]byte{byte('a' + i/26), byte('a' + i%26), '.'}, model.Fill(kl[i]-3, uint64(i)+1)...)
		m[string(k)] = string(model.Fill(vl[i], uint64(i)+500))
	}
	return m, model.PairsFromMap(m)
}

// checkMapping: the Mapping constructors and validators around the total-size limit.
func checkMapping(c Case, r *ev.Rec) error {
	m, pairs := bigMap(c)
	body := model.MappingBodyLen(pairs)
	over := body > 65535
	mp, err := data.GoMapToMapping(m)
	mv := data.NewMappingValues(len(pairs))
	var aerr error
	for _, p := range pairs {
		if mv, aerr = mv.Add(string(p.K), string(p.V)); aerr != nil {
			break
		}
	}
	var mp2 *data.Mapping
	var err2 error = aerr
	if aerr == nil {
		mp2, err2 = data.ValuesToMapping(mv)
	}
	_, err3 := router_address.NewRouterAddress(1, time.Unix(0, 0), "NTCP2", m)
	if over {
		r.Class("mapping:over-limit")
		if err == nil || err2 == nil || err3 == nil {
			return fmt.Errorf("a mapping of %d pairs whose encoded body is %d bytes (limit 65535) is accepted: GoMapToMapping err=%v, ValuesToMapping err=%v, NewRouterAddress err=%v", len(pairs), body, err, err2, err3)
		}
		r.NonTrivialStr(c, "mapping-over", fmt.Sprint(len(pairs), body))
		return nil
	}
	r.Class("mapping:in-limit")
	if err != nil || err2 != nil || err3 != nil {
		return fmt.Errorf("a mapping of %d pairs whose encoded body is %d bytes (limit 65535) is rejected: GoMapToMapping err=%v, ValuesToMapping err=%v, NewRouterAddress err=%v", len(pairs), body, err, err2, err3)
	}
	for i, x := range []*data.Mapping{mp, mp2} {
		if verr := x.Validate(); verr != nil {
			return fmt.Errorf("constructor %d succeeded but Mapping.Validate() fails: %v", i, verr)
		}
		b := x.Data()
		back, rem, errs := data.ReadMapping(b)
		if len(errs) != 0 || len(rem) != 0 {
			return fmt.Errorf("a validated mapping (%d pairs, body %d) does not parse back cleanly: %d errors (%v), remainder %d", len(pairs), body, len(errs), errs, len(rem))
		}
		if !bytes.Equal(back.Data(), b) || len(b) != body+2 {
			return fmt.Errorf("a validated mapping (%d pairs, body %d) re-serialises to %d bytes after the wire (first serialisation %d)", len(pairs), body, len(back.Data()), len(b))
		}
	}
	r.NonTrivialStr(c, "mapping-in", fmt.Sprint(len(pairs), body))
	return nil
}

func check(c Case, r *ev.Rec) error {
	r.Class("kind:" + c.Kind)
	switch c.Kind {
	case "mapping":
		return checkMapping(c, r)
	case "ls2":
		return checkLS2(c, r)
	case "els":
		return checkELS(c, r)
	case "offline":
		return checkOffline(c, r)
	case "signature":
		return checkSignature(c, r)
	case "cert":
		return checkCert(c, r)
	case "ident":
		return checkIdent(c, r)
	case "addr":
		return checkAddr(c, r)
	case "ri":
		return checkRI(c, r)
	case "ls":
		return checkLS(c, r)
	}
	return nil
}

func genCase(t *rapid.T) Case {
	c := Case{Kind: rapid.SampledFrom([]string{"ls2", "ls2", "els", "offline", "signature", "cert", "ident", "addr", "ri", "ls", "mapping"}).Draw(t, "kind")}
	c.N = rapid.IntRange(0, 1000).Draw(t, "n")
	defect := func(ds ...string) string {
		if rapid.Bool().Draw(t, "defective") {
			return rapid.SampledFrom(ds).Draw(t, "defect")
		}
		return ""
	}
	switch c.Kind {
	case "ls2":
		s := gen.LS2G(t, "ls2", []int{7, 11})
		s.Keys = gen.KeysG(t, "k", true)
		s.Header.Dest.NullCert = false
		if s.Header.Offline != nil {
			s.Header.Offline.TType = rapid.SampledFrom([]int{7, 11, 0}).Draw(t, "tt")
		}
		c.LS2 = &s
		c.Defect = defect("reserved-flag", "keylen-vs-type", "keylen-vs-data", "no-keys", "17-keys", "17-leases", "no-leases", "flag-without-block", "block-without-flag")
		if c.Defect == "flag-without-block" {
			s.Header.Offline = nil
		}
	case "els":
		s := gen.ELSG(t, "els", []int{7, 11})
		if s.Offline != nil {
			s.Offline.TType = rapid.SampledFrom([]int{7, 11}).Draw(t, "tt")
		}
		if s.InnerLen > 3000 {
			s.InnerLen = 700
		}
		c.ELS = &s
		c.Defect = defect("zero-expires", "reserved-flag", "key-size", "unknown-sigtype", "inner-too-short", "flag-without-block", "block-without-flag")
		if c.Defect == "flag-without-block" {
			s.Offline = nil
		}
	case "mapping":
		n := 125 + c.N%11
		c.Typ = rapid.SampledFrom([]int{-700, -3, -2, -1, 0, 1, 2, 3, n, 2*n - 1, 2 * n, 2*n + 1, 3 * n, 4 * n, 700}).Draw(t, "delta")
		if rapid.Bool().Draw(t, "anydelta") {
			c.Typ = rapid.IntRange(-2000, 2000).Draw(t, "delta2")
		}
	case "offline":
		c.Typ = int(gen.U32(t, "exp") & 0x7fffffff)
		c.Defect = defect("key-size", "key-size-short", "sig-size", "unknown-transient", "unknown-destination", "zero-expires")
	case "signature":
		c.Typ = rapid.SampledFrom([]int{0, 1, 2, 3, 4, 5, 6, 7, 8, 9, 10, 11, 12, 65535, -1, 65536}).Draw(t, "typ")
		c.Defect = defect("len-short", "len-long")
	case "cert":
		c.Typ = rapid.SampledFrom([]int{0, 1, 2, 3, 4, 5, 6, 7, 255}).Draw(t, "ctype")
		c.N = rapid.SampledFrom([]int{0, 1, 4, 39, 40, 41, 72, 73, 300}).Draw(t, "plen")
	case "ident":
		s := gen.Ident(t, "id", []int{0, 1, 2, 7, 8, 11}, []int{0, 4, 5})
		s.NullCert = false
		c.ID = &s
		c.Defect = defect("padding-size", "pubkey-type", "sigkey-type")
	case "addr":
		s := gen.AddrG(t, "addr")
		if s.Style == "" {
			s.Style = "53535532"
		}
		c.Addr = &s
		switch rapid.IntRange(0, 6).Draw(t, "emptystyle") {
		case 0:
			c.Defect = "empty-style"
		case 1:
			c.Defect = "style-too-long"
		}
		if rapid.IntRange(0, 3).Draw(t, "noopts") == 0 {
			s.Options = nil
		}
	case "ri":
		s := gen.RouterInfoG(t, "ri", []int{7})
		s.Ident.NullCert = false
		s.Published = s.Published%8000000000000 + uint64(rapid.IntRange(0, 1).Draw(t, "pubzero"))
		if rapid.IntRange(0, 6).Draw(t, "epoch") == 0 {
			s.Published = 0
		}
		for i := range s.Addrs {
			s.Addrs[i].Expiration = 0
			if s.Addrs[i].Style == "" {
				s.Addrs[i].Style = "78"
			}
		}
		c.RI = &s
		switch rapid.IntRange(0, 11).Draw(t, "badsig") {
		case 0, 1:
			c.Defect = "unsupported-sigtype"
		case 2:
			c.Defect = "too-many-addresses"
		}
	case "ls":
		s := gen.LeaseSetG(t, "ls")
		s.Dest.SigType = rapid.SampledFrom([]int{7, 11, 0}).Draw(t, "sig")
		s.Dest.EncType = rapid.SampledFrom([]int{0, 0, 4}).Draw(t, "enc") // the LeaseSet's own key stays a 256-byte ElGamal key whatever the destination's certificate says
		if s.Dest.SigType != 0 || s.Dest.EncType != 0 {
			s.Dest.NullCert = false
		}
		c.LS = &s
		c.Defect = defect("17-leases", "signing-key-size", "encryption-key-size")
	}
	return c
}

var prop = &ev.Prop[Case]{Sub: "layers", Quick: 200000, Thorough: 1200000, Gen: genCase, Check: check}

func TestRegress(t *testing.T) { prop.Regress(t) }
func TestReplay(t *testing.T)  { prop.Replay(t) }
func TestProp(t *testing.T)    { prop.Run(t) }

var _ = key_certificate.KEYCERT_SIGN_ED25519
