// Package c19 decides property C19: alternative entry points for the same
// structure agree (same acceptance, same serialisation, same remainder).
package c19

import (
	"bytes"
	"fmt"
	"testing"

	"github.com/go-i2p/common/certificate"
	"github.com/go-i2p/common/data"
	"github.com/go-i2p/common/key_certificate"
	"github.com/go-i2p/common/keys_and_cert"
	"github.com/go-i2p/common/router_identity"
	"pgregory.net/rapid"

	"verif/internal/ev"
	"verif/internal/gen"
	"verif/internal/lib"
	"verif/internal/libkeys"
	"verif/internal/model"
)

const rule = "cases: (twin pair, type argument, bytes) for 28 parser twin pairs (four of them conversions chained behind a parser: KeyCertificateFromCertificate(ReadCertificate) vs NewKeyCertificate, ReadRouterIdentity.AsDestination vs ReadDestination, NewRouterIdentityFromKeysAndCert(ReadDestination) vs ReadRouterIdentity, NewDestination(ReadKeysAndCert) vs ReadDestination) - generic vs fixed-size keys-and-cert readers (compared only on inputs whose certificate declares the fixed reader's key sizes), value- vs pointer-returning readers, destination / router-identity wrappers vs ReadKeysAndCert (compared on key types the wrapper permits), remainder-returning vs exact-length constructors (compared on inputs consumed completely), ReadLeaseSet's destination vs ReadDestinationFromLeaseSet - inputs valid / mutated / arbitrary as in C01; plus builder twins over generated arguments: five ways to make a key certificate, two certificate constructors, NewI2PString vs ToI2PString, NewIntegerFromInt vs EncodeIntN, NewRouterIdentity vs NewRouterIdentityFromKeysAndCert vs NewDestination; and builder histories: a CertificateBuilder driven through a generated sequence of 2..8 WithType/WithKeyTypes/WithPayload/Build calls (builder reuse) compared at every Build with the direct constructor on the arguments in effect, and every certificate built earlier in the history compared again after each later step with what its twin serialised to. Oracle: same acceptance, identical serialisation, identical remainder. Non-trivial: at least one twin accepted (and the input is in the pair's common domain); distinct by (pair, input)."

func TestMain(m *testing.M) { ev.Main(m, "C19", rule) }

type pair struct {
	a, b   string
	domain func(in []byte, typ int) bool // nil: everything
	exact  bool                          // b takes exact-length input: compare only when a leaves no remainder
	src    []string                      // entries used to draw inputs (default: a and b)
}

func certSizes(in []byte) (cs, ss int, ok bool) {
	id, _, err := model.DecodeIdent(in)
	if err != nil {
		// certificate may still declare sizes although the model rejects (unknown types)
		return 0, 0, false
	}
	return len(id.Enc), len(id.Sig), id.Cert.Type == 5
}

func identTypes(in []byte) (st, et int, ok bool) {
	id, _, err := model.DecodeIdent(in)
	if err != nil {
		return 0, 0, false
	}
	return id.SigType, id.EncType, true
}

var pairs = []pair{
	{a: "keys_and_cert.ReadKeysAndCert", b: "keys_and_cert.ReadKeysAndCertElgAndEd25519", domain: func(in []byte, _ int) bool {
		cs, ss, key := certSizes(in)
		return key && cs == 256 && ss == 32
	}},
	{a: "keys_and_cert.ReadKeysAndCert", b: "keys_and_cert.ReadKeysAndCertX25519AndEd25519", domain: func(in []byte, _ int) bool {
		cs, ss, key := certSizes(in)
		return key && cs == 32 && ss == 32
	}},
	{a: "destination.ReadDestination", b: "destination.NewDestinationFromBytes"},
	{a: "router_identity.ReadRouterIdentity", b: "router_identity.NewRouterIdentityFromBytes"},
	{a: "keys_and_cert.ReadKeysAndCert", b: "destination.ReadDestination", domain: func(in []byte, _ int) bool {
		st, et, ok := identTypes(in)
		return ok && st != 4 && st != 5 && st != 6 && st != 8 && et != 5 && et != 6 && et != 7
	}},
	{a: "keys_and_cert.ReadKeysAndCert", b: "router_identity.ReadRouterIdentity", domain: func(in []byte, _ int) bool {
		st, et, ok := identTypes(in)
		return ok && st != 4 && st != 5 && st != 6 && st != 8 && st != 11 && et != 5 && et != 6 && et != 7
	}},
	{a: "destination.ReadDestination", b: "lease_set.ReadDestinationFromLeaseSet", domain: func(in []byte, _ int) bool {
		st, et, ok := identTypes(in) // the legacy leaseset reader applies no key-type policy (C09's subject)
		return ok && st != 8 && et != 5 && et != 6 && et != 7
	}},
	{a: "lease.ReadLease", b: "lease.NewLeaseFromBytes"},
	{a: "lease.ReadLease2", b: "lease.NewLease2FromBytes"},
	{a: "data.ReadDate", b: "data.NewDate"},
	{a: "data.ReadInteger", b: "data.NewInteger"},
	{a: "data.ReadMapping", b: "data.NewMapping"},
	{a: "session_key.ReadSessionKey", b: "session_key.NewSessionKey"},
	{a: "session_tag.ReadSessionTag", b: "session_tag.NewSessionTag"},
	{a: "session_tag.ReadECIESSessionTag", b: "session_tag.NewECIESSessionTag"},
	{a: "signature.ReadSignature", b: "signature.NewSignature"},
	{a: "signature.ReadSignature", b: "signature.NewSignatureFromBytes", exact: true},
	{a: "data.ReadI2PString", b: "data.NewI2PStringFromBytes", exact: true},
	{a: "data.ReadHash", b: "data.NewHashFromSlice", exact: true},
	{a: "session_tag.ReadSessionTag", b: "session_tag.NewSessionTagFromBytes", exact: true},
	{a: "session_tag.ReadECIESSessionTag", b: "session_tag.NewECIESSessionTagFromBytes", exact: true},
	{a: "data.ReadInteger", b: "data.NewIntegerFromBytes", exact: true, domain: func(in []byte, typ int) bool { return typ == len(in) }},
	{a: "certificate.ReadCertificate", b: "key_certificate.NewKeyCertificate", domain: func(in []byte, _ int) bool {
		c, _, err := model.DecodeCert(in)
		return err == nil && c.Type == 5 && len(c.Payload) >= 4
	}},
	// a key certificate from bytes versus from a parsed certificate: same acceptance, serialisation, remainder
	{a: "key_certificate.NewKeyCertificate", b: "key_certificate.KeyCertificateFromCertificate(certificate.ReadCertificate)",
		src: []string{"key_certificate.NewKeyCertificate", "certificate.ReadCertificate"}},
	// the destination and router-identity wrappers, converted into each other
	{a: "destination.ReadDestination", b: "router_identity.ReadRouterIdentity.AsDestination", src: []string{"destination.ReadDestination"}, domain: func(in []byte, _ int) bool {
		st, et, ok := identTypes(in)
		return ok && st != 4 && st != 5 && st != 6 && st != 8 && st != 11 && et != 5 && et != 6 && et != 7
	}},
	{a: "router_identity.ReadRouterIdentity", b: "router_identity.NewRouterIdentityFromKeysAndCert(destination.ReadDestination)", src: []string{"destination.ReadDestination"}, domain: func(in []byte, _ int) bool {
		st, et, ok := identTypes(in)
		return ok && st != 4 && st != 5 && st != 6 && st != 8 && st != 11 && et != 5 && et != 6 && et != 7
	}},
	{a: "destination.ReadDestination", b: "destination.NewDestination(keys_and_cert.ReadKeysAndCert)", src: []string{"destination.ReadDestination"}},
	{a: "keys_and_cert.ReadKeysAndCertElgAndEd25519", b: "keys_and_cert.ReadKeysAndCertX25519AndEd25519", domain: func(in []byte, _ int) bool { return false }},
}

type Case struct {
	Pair  int       `json:"pair"`
	Input gen.Input `json:"input"`
}

func check(c Case, r *ev.Rec) error {
	if c.Pair < 0 || c.Pair >= len(pairs) {
		return nil
	}
	p := pairs[c.Pair]
	ea, eb := lib.ByName(p.a), lib.ByName(p.b)
	in := c.Input.Bytes()
	typ := c.Input.Typ
	ra := ea.Parse(append([]byte{}, in...), typ)
	rb := eb.Parse(append([]byte{}, in...), typ)
	name := p.a + " ~ " + p.b
	r.Class("pair:" + name)
	if p.domain != nil && !p.domain(in, typ) {
		r.Class("outside-common-domain")
		return nil
	}
	if p.exact {
		// compare only on inputs the remainder-returning twin consumes completely
		if ra.Accepted && len(ra.Rem) != 0 {
			r.Class("exact:has-remainder")
			if rb.Accepted {
				return fmt.Errorf("%s: the exact-length twin accepted %d bytes although the structure occupies only %d", name, len(in), len(in)-len(ra.Rem))
			}
			return nil
		}
	}
	if ra.Accepted != rb.Accepted {
		return fmt.Errorf("%s disagree on acceptance of the same %d bytes (typ %d): %v (%v) vs %v (%v)", name, len(in), typ, ra.Accepted, ra.Err, rb.Accepted, rb.Err)
	}
	if !ra.Accepted {
		r.Class("both-reject")
		return nil
	}
	if (ra.SerErr == nil) != (rb.SerErr == nil) || !bytes.Equal(ra.Serial, rb.Serial) {
		return fmt.Errorf("%s accept the same input but serialise differently (%d vs %d bytes, errors %v / %v)", name, len(ra.Serial), len(rb.Serial), ra.SerErr, rb.SerErr)
	}
	if ea.HasRem && eb.HasRem && !bytes.Equal(ra.Rem, rb.Rem) {
		return fmt.Errorf("%s accept the same input but return different remainders (%d vs %d bytes)", name, len(ra.Rem), len(rb.Rem))
	}
	r.Class("both-accept")
	r.NonTrivial(c, []byte(name), []byte{byte(typ)}, in)
	return nil
}

func genCase(t *rapid.T) Case {
	i := rapid.IntRange(0, len(pairs)-2).Draw(t, "pair") // the last row is a placeholder
	p := pairs[i]
	entries := []string{p.a}
	if rapid.Bool().Draw(t, "useB") {
		entries = []string{p.b}
	}
	if p.src != nil {
		entries = p.src
	}
	in := gen.InputG(t, entries)
	if p.exact && in.Source == "valid" {
		in.Hex = ev.H(in.Bytes()) // keep exact length (InputG may have added a suffix; both shapes are wanted)
	}
	return Case{Pair: i, Input: in}
}

var prop = &ev.Prop[Case]{Sub: "parsers", Quick: 500000, Thorough: 6000000, Gen: genCase, Check: check}

// ---------------------------------------------------------------------------
// builder twins

type BuildCase struct {
	Sig     int           `json:"sig"`
	Enc     int           `json:"enc"`
	CType   int           `json:"ctype"`
	Payload string        `json:"payload_hex"`
	Str     string        `json:"str_hex"`
	Value   int64         `json:"value"`
	Size    int           `json:"size"`
	Ident   gen.IdentSpec `json:"ident"`
}

func checkBuild(c BuildCase, r *ev.Rec) error {
	// --- five ways to a key certificate
	type res struct {
		name string
		b    []byte
		err  error
	}
	var rs []res
	payload, perr := certificate.BuildKeyTypePayload(c.Sig, c.Enc)
	if perr == nil {
		if cert, err := certificate.NewCertificateWithType(certificate.CERT_KEY, payload); err == nil {
			kc, err := key_certificate.KeyCertificateFromCertificate(cert)
			if err == nil {
				rs = append(rs, res{"BuildKeyTypePayload+NewCertificateWithType+FromCertificate", kc.Bytes(), nil})
			} else {
				rs = append(rs, res{"BuildKeyTypePayload+NewCertificateWithType+FromCertificate", nil, err})
			}
		}
		wire := append([]byte{5, 0, 4}, payload...)
		kc, rem, err := key_certificate.NewKeyCertificate(append(append([]byte{}, wire...), 0xEE))
		if err == nil && len(rem) == 1 {
			rs = append(rs, res{"NewKeyCertificate(bytes)", kc.Bytes(), nil})
		} else {
			rs = append(rs, res{"NewKeyCertificate(bytes)", nil, fmt.Errorf("err %v rem %d", err, len(rem))})
		}
		cc, _, err := certificate.ReadCertificate(wire)
		if err == nil {
			kc2, err := key_certificate.KeyCertificateFromCertificate(cc)
			if err == nil {
				rs = append(rs, res{"KeyCertificateFromCertificate(ReadCertificate)", kc2.Bytes(), nil})
			} else {
				rs = append(rs, res{"KeyCertificateFromCertificate(ReadCertificate)", nil, err})
			}
		}
	}
	if b, err := certificate.NewCertificateBuilder().WithKeyTypes(c.Sig, c.Enc); err == nil && c.Sig <= 65535 && c.Enc <= 65535 {
		cert, err := b.Build()
		if err == nil {
			rs = append(rs, res{"CertificateBuilder.WithKeyTypes", cert.Bytes(), nil})
		} else {
			rs = append(rs, res{"CertificateBuilder.WithKeyTypes", nil, err})
		}
	}
	kcT, errT := key_certificate.NewKeyCertificateWithTypes(c.Sig, c.Enc)
	if errT == nil {
		// documented domain: known codes only; agreement required on the intersection
		rs = append(rs, res{"NewKeyCertificateWithTypes", kcT.Bytes(), nil})
	}
	var ref []byte
	for _, x := range rs {
		if x.err != nil {
			return fmt.Errorf("key certificate for (sig %d, enc %d): %s failed (%v) although the arguments are in the common domain", c.Sig, c.Enc, x.name, x.err)
		}
		if ref == nil {
			ref = x.b
		} else if !bytes.Equal(ref, x.b) {
			return fmt.Errorf("key certificate for (sig %d, enc %d): %s gives % x, %s gives % x", c.Sig, c.Enc, rs[0].name, ref, x.name, x.b)
		}
	}
	if ref != nil {
		want := model.KeyCert(c.Sig, c.Enc, nil).Encode()
		if !bytes.Equal(ref, want) {
			return fmt.Errorf("key certificate for (sig %d, enc %d) = % x, specification encoding % x", c.Sig, c.Enc, ref, want)
		}
		r.Class("keycert:built")
	}
	// --- two certificate constructors
	pl := ev.UnH(c.Payload)
	c1, e1 := certificate.NewCertificateWithType(uint8(c.CType), pl)
	var c2 *certificate.Certificate
	b, e2 := certificate.NewCertificateBuilder().WithType(uint8(c.CType))
	if e2 == nil {
		c2, e2 = b.WithPayload(pl).Build()
	}
	if (e1 == nil) != (e2 == nil) {
		// the builder refuses a KEY certificate without payload; NewCertificateWithType takes it
		if !(c.CType == 5 && len(pl) == 0) {
			return fmt.Errorf("certificate(type %d, %d payload bytes): NewCertificateWithType err=%v, builder err=%v", c.CType, len(pl), e1, e2)
		}
	} else if e1 == nil && !bytes.Equal(c1.Bytes(), c2.Bytes()) {
		return fmt.Errorf("certificate(type %d, %d payload bytes): constructors serialise differently", c.CType, len(pl))
	} else if e1 == nil {
		if want := (model.Cert{Type: c.CType, Payload: pl}).Encode(); !bytes.Equal(c1.Bytes(), want) {
			return fmt.Errorf("certificate(type %d): % x, specification encoding % x", c.CType, c1.Bytes(), want)
		}
		r.Class("cert:built")
	}
	// --- strings
	s := string(ev.UnH(c.Str))
	s1, se1 := data.NewI2PString(s)
	s2, se2 := data.ToI2PString(s)
	if (se1 == nil) != (se2 == nil) || !bytes.Equal(s1, s2) {
		return fmt.Errorf("NewI2PString / ToI2PString disagree on %d bytes: err %v / %v", len(s), se1, se2)
	}
	// --- integers
	i1, ie1 := data.NewIntegerFromInt(int(c.Value), c.Size)
	i2, ie2 := data.EncodeIntN(int(c.Value), c.Size)
	if (ie1 == nil) != (ie2 == nil) || (ie1 == nil && !bytes.Equal(i1.Bytes(), i2)) {
		return fmt.Errorf("NewIntegerFromInt / EncodeIntN disagree on (%d,%d): %v / %v", c.Value, c.Size, ie1, ie2)
	}
	// --- identity constructors
	id, _ := c.Ident.Build()
	if id.Cert.Type == 5 {
		ri1, re1 := libkeys.RouterIdent(id)
		var ri2 *router_identity.RouterIdentity
		kac, re2 := libkeys.KAC(id)
		if re2 == nil {
			ri2, re2 = router_identity.NewRouterIdentityFromKeysAndCert(kac)
		}
		if (re1 == nil) != (re2 == nil) {
			return fmt.Errorf("NewRouterIdentity err=%v, NewRouterIdentityFromKeysAndCert err=%v for the same arguments (sig %d enc %d)", re1, re2, id.SigType, id.EncType)
		}
		enc := id.Encode()
		ri3, rem3, re3 := router_identity.ReadRouterIdentity(enc)
		if (re1 == nil) != (re3 == nil) {
			return fmt.Errorf("NewRouterIdentity err=%v but ReadRouterIdentity err=%v for the same identity (sig %d enc %d)", re1, re3, id.SigType, id.EncType)
		}
		if re1 == nil {
			b1, _ := ri1.Bytes()
			b2, _ := ri2.Bytes()
			b3, _ := ri3.Bytes()
			if !bytes.Equal(b1, b2) || !bytes.Equal(b1, b3) || !bytes.Equal(b1, enc) || len(rem3) != 0 {
				return fmt.Errorf("router identity twins serialise differently (sig %d enc %d)", id.SigType, id.EncType)
			}
			r.Class("routerident:built")
		}
		var kk *keys_and_cert.KeysAndCert = kac
		_ = kk
	}
	r.NonTrivialStr(c, "build", fmt.Sprint(c.Sig, c.Enc, c.CType, len(pl), len(s), c.Value, c.Size), fmt.Sprint(c.Ident.SigType, c.Ident.EncType, c.Ident.KeySeed))
	return nil
}

func genBuild(t *rapid.T) BuildCase {
	codes := []int{0, 1, 2, 3, 4, 5, 6, 7, 8, 9, 10, 11, 12, 20, 21, 255, 256, 65279, 65280, 65534, 65535, 65536, -1}
	c := BuildCase{
		Sig:   rapid.SampledFrom(codes).Draw(t, "sig"),
		Enc:   rapid.SampledFrom(codes).Draw(t, "enc"),
		CType: rapid.SampledFrom([]int{0, 1, 2, 3, 4, 5, 6, 255}).Draw(t, "ctype"),
		Size:  rapid.IntRange(-1, 9).Draw(t, "size"),
		Ident: gen.Ident(t, "id", []int{0, 1, 2, 7, 8, 11}, []int{0, 4, 5}),
	}
	if rapid.Bool().Draw(t, "anycode") {
		c.Sig = rapid.IntRange(0, 65535).Draw(t, "sigany")
	}
	c.Payload = ev.H(model.Fill(rapid.SampledFrom([]int{0, 1, 3, 4, 5, 40, 41, 72, 73, 300}).Draw(t, "plen"), 3))
	c.Str = ev.H(model.Fill(rapid.SampledFrom([]int{0, 1, 254, 255, 256, 300}).Draw(t, "slen"), 4))
	c.Value = rapid.SampledFrom([]int64{0, 1, 255, 256, 65535, 65536, 1<<32 - 1, 1 << 32, 1<<62 + 5, -1}).Draw(t, "value")
	return c
}

var propBuild = &ev.Prop[BuildCase]{Sub: "builders", Quick: 120000, Thorough: 2000000, Gen: genBuild, Check: checkBuild}

// ---------------------------------------------------------------------------
// builder histories (stateful): a CertificateBuilder driven through a generated
// sequence of WithType / WithKeyTypes / WithPayload / Build calls must, at every
// Build, agree with the direct constructor on the arguments in effect.

type BuilderOp struct {
	Op      string `json:"op"` // type | keytypes | payload | build
	A       int    `json:"a"`
	B       int    `json:"b"`
	Payload string `json:"payload_hex,omitempty"`
}

type SeqCase struct {
	Ops []BuilderOp `json:"ops"`
}

func checkSeq(c SeqCase, r *ev.Rec) error {
	b := certificate.NewCertificateBuilder()
	// model of the documented semantics
	ctype := 0
	var payload []byte
	lastSetter := "" // "keytypes" or "payload"
	ks, kc := 0, 0
	builds := 0
	// certificates built earlier in the history stay what they were while the builder is used
	// further: each is compared again, after every later step, with what its twin from the
	// direct constructor serialised to (the twin never saw the builder)
	type held struct {
		step int
		cert *certificate.Certificate
		want []byte
	}
	var earlier []held
	for i, op := range c.Ops {
		for _, h := range earlier {
			if got := h.cert.Bytes(); !bytes.Equal(got, h.want) {
				return fmt.Errorf("step %d (%s): the certificate built at step %d now serialises to % x; when it was built it agreed with the direct constructor on % x (the builder was used further in between)", i, op.Op, h.step, got, h.want)
			}
		}
		switch op.Op {
		case "type":
			if _, err := b.WithType(uint8(op.A)); err == nil {
				ctype = op.A
			} else if op.A >= 0 && op.A <= 5 {
				return fmt.Errorf("step %d: WithType(%d) rejected a valid type: %v", i, op.A, err)
			}
		case "keytypes":
			if _, err := b.WithKeyTypes(op.A, op.B); err == nil {
				ctype, lastSetter, ks, kc = 5, "keytypes", op.A, op.B
			} else if op.A >= 0 && op.B >= 0 {
				return fmt.Errorf("step %d: WithKeyTypes(%d,%d) rejected: %v", i, op.A, op.B, err)
			}
		case "payload":
			payload = ev.UnH(op.Payload)
			b.WithPayload(payload)
			lastSetter = "payload"
		case "build":
			got, gerr := b.Build()
			var want *certificate.Certificate
			var werr error
			switch lastSetter {
			case "keytypes":
				if ctype != 5 {
					continue // WithType after WithKeyTypes: semantics not documented, not compared
				}
				pl, perr := certificate.BuildKeyTypePayload(ks, kc)
				if perr != nil {
					continue // codes above 65535: outside BuildKeyTypePayload's domain
				}
				want, werr = certificate.NewCertificateWithType(5, pl)
			case "payload":
				want, werr = certificate.NewCertificateWithType(uint8(ctype), payload)
				if ctype == 5 && len(payload) == 0 {
					continue // the builder documents that a KEY certificate needs key types or a payload
				}
			default:
				if ctype == 5 {
					continue
				}
				want, werr = certificate.NewCertificateWithType(uint8(ctype), nil)
			}
			builds++
			if (gerr == nil) != (werr == nil) {
				return fmt.Errorf("step %d: Build() error=%v but the direct constructor on the arguments in effect (type %d, last setter %q) error=%v", i, gerr, ctype, lastSetter, werr)
			}
			if gerr == nil && !bytes.Equal(got.Bytes(), want.Bytes()) {
				return fmt.Errorf("step %d: Build() = % x, the direct constructor on the arguments in effect (type %d, last setter %q, key types %d/%d) gives % x", i, got.Bytes(), ctype, lastSetter, ks, kc, want.Bytes())
			}
			if gerr == nil {
				earlier = append(earlier, held{i, got, append([]byte{}, want.Bytes()...)})
			}
		}
	}
	for _, h := range earlier {
		if got := h.cert.Bytes(); !bytes.Equal(got, h.want) {
			return fmt.Errorf("end of the history: the certificate built at step %d now serialises to % x; when it was built it agreed with the direct constructor on % x", h.step, got, h.want)
		}
	}
	if len(earlier) >= 2 {
		r.Class("builderseq:earlier-builds-compared-again")
	}
	if builds >= 2 {
		r.Class("builderseq:reused-builder")
		r.NonTrivialStr(c, "seq", fmt.Sprint(c.Ops))
	}
	return nil
}

var propSeq = &ev.Prop[SeqCase]{Sub: "builderseq", Quick: 60000, Thorough: 2000000,
	Gen: func(t *rapid.T) SeqCase {
		var c SeqCase
		n := rapid.IntRange(2, 8).Draw(t, "n")
		codes := []int{0, 1, 2, 4, 7, 8, 11, 255, 65535}
		for i := 0; i < n; i++ {
			op := BuilderOp{Op: rapid.SampledFrom([]string{"type", "keytypes", "keytypes", "payload", "build", "build"}).Draw(t, "op")}
			switch op.Op {
			case "type":
				op.A = rapid.SampledFrom([]int{0, 1, 2, 3, 4, 5, 6}).Draw(t, "ctype")
			case "keytypes":
				op.A = rapid.SampledFrom(codes).Draw(t, "sig")
				op.B = rapid.SampledFrom(codes).Draw(t, "enc")
			case "payload":
				op.Payload = ev.H(model.Fill(rapid.SampledFrom([]int{0, 1, 4, 4, 5, 40, 72}).Draw(t, "plen"), uint64(i)+3))
			}
			c.Ops = append(c.Ops, op)
		}
		c.Ops = append(c.Ops, BuilderOp{Op: "build"})
		return c
	}, Check: checkSeq}

func TestPropBuilderSeq(t *testing.T) {
	ev.R().Floor("builderseq:reused-builder", 1000)
	propSeq.Run(t)
}

func TestRegress(t *testing.T)      { prop.Regress(t); propBuild.Regress(t); propSeq.Regress(t) }
func TestReplay(t *testing.T)       { _ = prop.Replay(t) || propBuild.Replay(t) || propSeq.Replay(t) }
func TestPropParsers(t *testing.T)  { prop.Run(t) }
func TestPropBuilders(t *testing.T) { propBuild.Run(t) }

func FuzzTwins(f *testing.F) {
	for i, p := range pairs {
		f.Add([]byte{byte(i), 7})
		for _, in := range gen.FixedInputs(p.a) {
			f.Add(append([]byte{byte(i), byte(in.Typ)}, in.Bytes()...))
		}
	}
	prop.Fuzz(f, func(b []byte) (Case, bool) {
		if len(b) < 2 || len(b) > 8000 {
			return Case{}, false
		}
		return Case{Pair: int(b[0]) % (len(pairs) - 1), Input: gen.Input{Typ: int(b[1]), Hex: ev.H(b[2:]), Source: "fuzz"}}, true
	})
}
