// Package c06 decides property C06: whatever the library signs it also
// verifies, before and after the wire.
package c06

import (
	"bytes"
	stded "crypto/ed25519"
	"fmt"
	"strings"
	"testing"
	"time"

	"github.com/go-i2p/common/data"
	"github.com/go-i2p/common/destination"
	"github.com/go-i2p/common/encrypted_leaseset"
	"github.com/go-i2p/common/lease"
	"github.com/go-i2p/common/lease_set"
	"github.com/go-i2p/common/lease_set2"
	"github.com/go-i2p/common/offline_signature"
	"github.com/go-i2p/common/router_address"
	"github.com/go-i2p/common/router_info"
	goi2ped "github.com/go-i2p/crypto/ed25519"
	elgamal "github.com/go-i2p/crypto/elg"
	"pgregory.net/rapid"

	"verif/internal/ev"
	"verif/internal/gen"
	"verif/internal/lib"
	"verif/internal/libkeys"
	"verif/internal/model"
)

const rule = "cases: constructor arguments derived from generated specs - NewRouterInfo (Ed25519 identity, 0..8 addresses built by NewRouterAddress with arbitrary option maps incl. empty values and one-character keys, arbitrary options), NewLeaseSet (destination signing types DSA incl. NULL certificate, P-256, Ed25519, RedDSA; 0..16 leases), NewLeaseSet2 (every flag combination of bits 1-2, 1..16 keys incl. unassigned and experimental key types of any length, 1..16 leases, options, offline block created by CreateOfflineSignature (Ed25519 / RedDSA destinations) or by NewOfflineSignature around the destination's own DSA signature (DSA destinations, KEY and NULL certificate), transient types 0,1,7,11), NewEncryptedLeaseSet and NewEncryptedLeaseSetFromDestination (all four accepted key representations, with and without offline block), CreateOfflineSignature (destination types 7, 11, and 8 where the constructor signs at all). Oracle: constructor succeeded with the private key matching the identity => Verify succeeds; Read*(Bytes()) succeeds with an empty remainder and the parsed value verifies; the independent verifier of C05 (stdlib crypto over the raw bytes, specification prefix) accepts the bytes. Non-trivial: >= 1 option, address, lease beyond the first, or offline block; distinct by output bytes minus signature."

// touch calls every argument-free exported method of v (and of the library
// values those return) once; a read-only accessor must not change what verifies.
func touch(v any) int {
	sw := &lib.Sweep{MaxDepth: 1}
	sw.Run("", v)
	return sw.Calls
}

// reuse overwrites a receive buffer the way the next message read into it would.
// Only applied to the structures property C08 lists as independent of their input
// (LeaseSet, EncryptedLeaseSet, OfflineSignature).
func reuse(b []byte) {
	for i := range b {
		b[i] = byte(0xa5 ^ i)
	}
}

func TestMain(m *testing.M) { ev.Main(m, "C06", rule) }

type Case struct {
	Kind string              `json:"kind"` // ri | ls | ls2 | els | elsdest | offline
	RI   *gen.RouterInfoSpec `json:"ri,omitempty"`
	LS   *gen.LeaseSetSpec   `json:"ls,omitempty"`
	LS2  *gen.LS2Spec        `json:"ls2,omitempty"`
	ELS  *gen.ELSSpec        `json:"els,omitempty"`
	Rep  int                 `json:"key_rep,omitempty"`   // representation of the Ed25519 key handed to the ELS constructors
	PH   bool                `json:"ed25519ph,omitempty"` // offline kind: destination signature type 8 over the Ed25519 key
}

func pairsToMap(p gen.Pairs) map[string]string {
	m := map[string]string{}
	for _, kv := range p.Build() {
		m[string(kv.K)] = string(kv.V)
	}
	return m
}

func libDest(id model.Ident) (destination.Destination, error) {
	if id.Cert.Type == 5 {
		d, err := libkeys.Dest(id)
		if err != nil {
			return destination.Destination{}, err
		}
		return *d, nil
	}
	return libkeys.ParsedDest(id)
}

func checkRI(c Case, r *ev.Rec) error {
	s := c.RI
	id, key := s.Ident.Build()
	rid, err := libkeys.RouterIdent(id)
	if err != nil {
		return fmt.Errorf("NewRouterIdentity rejected a permitted identity: %v", err)
	}
	var addrs []*router_address.RouterAddress
	for _, a := range s.Addrs {
		ma := a.Build()
		ra, err := router_address.NewRouterAddress(ma.Cost, time.Unix(0, 0), string(ma.Style), pairsToMap(a.Options))
		if err != nil {
			return fmt.Errorf("NewRouterAddress rejected admissible arguments (style %q, %d options): %v", ma.Style, len(ma.Options), err)
		}
		addrs = append(addrs, ra)
	}
	priv, err := libkeys.SigPriv(key)
	if err != nil {
		return err
	}
	ri, err := router_info.NewRouterInfo(rid, time.UnixMilli(int64(s.Published)), addrs, pairsToMap(s.Options), priv, 7)
	if err != nil {
		return fmt.Errorf("NewRouterInfo rejected admissible arguments: %v", err)
	}
	if ok, err := ri.VerifySignature(); !ok || err != nil {
		return fmt.Errorf("NewRouterInfo output does not verify: %v %v", ok, err)
	}
	b, err := ri.Bytes()
	if err != nil {
		return fmt.Errorf("NewRouterInfo output does not serialise: %v", err)
	}
	back, rem, err := router_info.ReadRouterInfo(b)
	if err != nil || len(rem) != 0 {
		return fmt.Errorf("ReadRouterInfo(NewRouterInfo(...).Bytes()) failed: %v (remainder %d) - %d addresses, %d options", err, len(rem), len(addrs), len(s.Options))
	}
	if ok, err := back.VerifySignature(); !ok || err != nil {
		return fmt.Errorf("RouterInfo no longer verifies after serialise+parse: %v %v", ok, err)
	}
	if n := touch(ri) + touch(&back); n > 0 {
		if ok, err := ri.VerifySignature(); !ok || err != nil {
			return fmt.Errorf("RouterInfo built by NewRouterInfo no longer verifies after its argument-free accessors were called: %v %v", ok, err)
		}
		if ok, err := back.VerifySignature(); !ok || err != nil {
			return fmt.Errorf("RouterInfo parsed back no longer verifies after its argument-free accessors were called: %v %v", ok, err)
		}
	}
	dm, n, err := model.DecodeRouterInfo(b)
	if err != nil || n != len(b) {
		return fmt.Errorf("independent decoder rejects NewRouterInfo output: %v", err)
	}
	if !model.Verify(7, dm.Ident.Sig, b[:len(b)-64], dm.Sig) {
		return fmt.Errorf("independent verifier rejects the RouterInfo signature (over all bytes before the signature)")
	}
	r.Class(fmt.Sprintf("ri:addrs=%d", min(len(addrs), 3)))
	if len(addrs) > 0 || len(s.Options) > 0 {
		r.NonTrivial(c, []byte("ri"), b[:len(b)-64])
	}
	return nil
}

func checkLS(c Case, r *ev.Rec) error {
	s := c.LS
	id, key := s.Dest.Build()
	m, _ := s.Build()
	dest, err := libDest(id)
	if err != nil {
		return fmt.Errorf("destination: %v", err)
	}
	var ek elgamal.ElgPublicKey
	copy(ek[:], m.EncKey)
	rk, err := libkeys.SigPub(id.SigType, m.SigKey)
	if err != nil {
		return err
	}
	var leases []lease.Lease
	for _, l := range m.Leases {
		nl, err := lease.NewLease(data.Hash(l.GW), l.Tunnel, time.UnixMilli(int64(l.EndMs)))
		if err != nil {
			return fmt.Errorf("NewLease: %v", err)
		}
		leases = append(leases, *nl)
	}
	priv, err := libkeys.SigPriv(key)
	if err != nil {
		return err
	}
	ls, err := lease_set.NewLeaseSet(dest, ek, rk, leases, priv)
	if err != nil {
		return fmt.Errorf("NewLeaseSet rejected admissible arguments (dest sig %d): %v", id.SigType, err)
	}
	r.Class(fmt.Sprintf("ls:sig%d", id.SigType))
	if err := ls.Verify(); err != nil {
		if ecdsaVerifyBroken(id.SigType, err) && r.Known("F-ECDSA-VERIFY", c) {
			return nil
		}
		return fmt.Errorf("NewLeaseSet output (dest sig %d, %d leases) does not verify: %v", id.SigType, len(leases), err)
	}
	b, err := ls.Bytes()
	if err != nil {
		return err
	}
	wire := append([]byte{}, b...)
	back, err := lease_set.ReadLeaseSet(wire)
	if err != nil {
		return fmt.Errorf("ReadLeaseSet(NewLeaseSet(...).Bytes()) failed: %v", err)
	}
	if err := back.Verify(); err != nil {
		return fmt.Errorf("LeaseSet no longer verifies after serialise+parse: %v", err)
	}
	reuse(wire)
	if err := back.Verify(); err != nil {
		return fmt.Errorf("LeaseSet parsed back from its bytes no longer verifies once the receive buffer is reused for other data: %v", err)
	}
	if n := touch(&ls) + touch(&back); n > 0 {
		if err := ls.Verify(); err != nil {
			return fmt.Errorf("LeaseSet built by NewLeaseSet no longer verifies after its argument-free accessors were called: %v", err)
		}
		if err := back.Verify(); err != nil {
			return fmt.Errorf("LeaseSet parsed back no longer verifies after its argument-free accessors were called: %v", err)
		}
	}
	dm, n, err := model.DecodeLeaseSet(b)
	if err != nil || n != len(b) {
		return fmt.Errorf("independent decoder rejects NewLeaseSet output: %v (extent %d of %d)", err, n, len(b))
	}
	if !model.Verify(id.SigType, dm.Dest.Sig, b[:len(b)-len(dm.Sig)], dm.Sig) {
		return fmt.Errorf("independent verifier rejects the LeaseSet signature")
	}
	if len(leases) > 1 {
		r.NonTrivial(c, []byte("ls"), b[:len(b)-len(dm.Sig)])
	}
	return nil
}

// ecdsaVerifyBroken is the signature of known finding F-ECDSA-VERIFY: the key
// that has to verify is ECDSA (P-256 / P-384) and go-i2p/crypto's verifier
// refuses the 64/96-byte X||Y key ("invalid key format").
func ecdsaVerifyBroken(sigType int, err error) bool {
	return (sigType == 1 || sigType == 2) && err != nil && strings.Contains(err.Error(), "invalid key format")
}

func edPriv(k *model.SignKey) stded.PrivateKey { return stded.PrivateKey(k.Priv) }

// offlineFor creates the offline block through the library for an Ed25519 /
// RedDSA identity key and returns it with the transient key pair.
func offlineFor(o *gen.OfflineSpec, idType int, idKey *model.SignKey) (*offline_signature.OfflineSignature, *model.SignKey, error) {
	tk := model.NewSignKey(o.TType, o.Seed)
	exp := o.Expires
	if exp == 0 {
		exp = 1
	}
	if idType != 7 && idType != 11 {
		// CreateOfflineSignature signs for Ed25519-family destinations only; for the other
		// types the block is assembled by NewOfflineSignature around a signature made with
		// the destination's own key over expires || type || transient key
		mo := model.Offline{Expires: exp, TType: o.TType, TKey: tk.Pub}
		off, err := offline_signature.NewOfflineSignature(exp, uint16(o.TType), tk.Pub, idKey.Sign(mo.SignedPart()), uint16(idType))
		if err != nil {
			return nil, nil, fmt.Errorf("NewOfflineSignature(transient %d, destination %d): %v", o.TType, idType, err)
		}
		return &off, tk, nil
	}
	off, err := offline_signature.CreateOfflineSignature(exp, uint16(o.TType), tk.Pub, edPriv(idKey), uint16(idType))
	if err != nil {
		return nil, nil, fmt.Errorf("CreateOfflineSignature(transient %d, destination %d): %v", o.TType, idType, err)
	}
	return &off, tk, nil
}

func checkLS2(c Case, r *ev.Rec) error {
	s := c.LS2
	id, key := s.Header.Dest.Build()
	dest, err := libDest(id)
	if err != nil {
		return fmt.Errorf("destination: %v", err)
	}
	flags := s.Header.Flags &^ 1
	var off *offline_signature.OfflineSignature
	signer := key
	if s.Header.Offline != nil {
		var tk *model.SignKey
		if off, tk, err = offlineFor(s.Header.Offline, id.SigType, key); err != nil {
			return err
		}
		signer = tk
		flags |= 1
		r.Class(fmt.Sprintf("ls2:offline-transient%d", s.Header.Offline.TType))
	}
	var opts data.Mapping
	if len(s.Options) > 0 {
		mp, err := data.GoMapToMapping(pairsToMap(s.Options))
		if err != nil {
			return fmt.Errorf("GoMapToMapping: %v", err)
		}
		opts = *mp
	}
	var keys []lease_set2.EncryptionKey
	for _, k := range s.Keys {
		mk := k.Build()
		keys = append(keys, lease_set2.EncryptionKey{KeyType: uint16(mk.Type), KeyLen: uint16(mk.Len), KeyData: mk.Data})
	}
	var leases []lease.Lease2
	for _, l := range s.Leases {
		ml := l.Build()
		nl, err := lease.NewLease2(data.Hash(ml.GW), ml.Tunnel, time.Unix(int64(ml.End), 0))
		if err != nil {
			return fmt.Errorf("NewLease2: %v", err)
		}
		leases = append(leases, *nl)
	}
	priv, err := libkeys.SigPriv(signer)
	if err != nil {
		return err
	}
	ls, err := lease_set2.NewLeaseSet2(dest, s.Header.Published, s.Header.Expires, flags, off, opts, keys, leases, priv)
	if err != nil {
		return fmt.Errorf("NewLeaseSet2 rejected admissible arguments (dest sig %d, flags %#x): %v", id.SigType, flags, err)
	}
	r.Class(fmt.Sprintf("ls2:sig%d", id.SigType))
	if err := ls.Verify(); err != nil {
		if (ecdsaVerifyBroken(id.SigType, err) || ecdsaVerifyBroken(signer.Type, err)) && r.Known("F-ECDSA-VERIFY", c) {
			return nil
		}
		return fmt.Errorf("NewLeaseSet2 output (dest sig %d, signer type %d, flags %#x) does not verify: %v", id.SigType, signer.Type, flags, err)
	}
	b, err := ls.Bytes()
	if err != nil {
		return err
	}
	back, rem, err := lease_set2.ReadLeaseSet2(b)
	if err != nil || len(rem) != 0 {
		return fmt.Errorf("ReadLeaseSet2(NewLeaseSet2(...).Bytes()) failed: %v (remainder %d)", err, len(rem))
	}
	if err := back.Verify(); err != nil {
		return fmt.Errorf("LeaseSet2 no longer verifies after serialise+parse: %v", err)
	}
	if n := touch(&ls) + touch(&back); n > 0 {
		if err := ls.Verify(); err != nil {
			return fmt.Errorf("LeaseSet2 built by NewLeaseSet2 no longer verifies after its argument-free accessors were called: %v", err)
		}
		if err := back.Verify(); err != nil {
			return fmt.Errorf("LeaseSet2 parsed back no longer verifies after its argument-free accessors were called: %v", err)
		}
	}
	dm, n, err := model.DecodeLS2(b)
	if err != nil || n != len(b) {
		return fmt.Errorf("independent decoder rejects NewLeaseSet2 output: %v", err)
	}
	msg := append([]byte{3}, b[:len(b)-len(dm.Sig)]...)
	if dm.Offline != nil {
		if !model.Verify(dm.Offline.TType, dm.Offline.TKey, msg, dm.Sig) || !model.Verify(id.SigType, id.Sig, dm.Offline.SignedPart(), dm.Offline.Sig) {
			return fmt.Errorf("independent verifier rejects the LeaseSet2 signature chain (offline)")
		}
	} else if !model.Verify(id.SigType, id.Sig, msg, dm.Sig) {
		return fmt.Errorf("independent verifier rejects the LeaseSet2 signature (0x03 || content)")
	}
	if len(s.Options) > 0 || off != nil || len(leases) > 1 || len(keys) > 1 {
		r.NonTrivial(c, []byte("ls2"), b[:len(b)-len(dm.Sig)])
	}
	return nil
}

func keyRep(rep int, k *model.SignKey) interface{} {
	switch rep % 4 {
	case 0:
		return stded.PrivateKey(k.Priv)
	case 1:
		var a [64]byte
		copy(a[:], k.Priv)
		return a
	case 2:
		p, _ := goi2ped.NewEd25519PrivateKey(k.Priv)
		return &p
	}
	return append([]byte{}, k.Priv...)
}

func checkELS(c Case, r *ev.Rec) error {
	s := c.ELS
	bk := model.NewSignKey(s.SigType, s.KeySeed)
	flags := s.Flags &^ 1
	var off *offline_signature.OfflineSignature
	signer := bk
	var err error
	if s.Offline != nil {
		var tk *model.SignKey
		if off, tk, err = offlineFor(s.Offline, s.SigType, bk); err != nil {
			return err
		}
		signer = tk
		flags |= 1
	}
	inner := model.Fill(s.InnerLen, s.InnerSeed)
	var els *encrypted_leaseset.EncryptedLeaseSet
	if c.Kind == "elsdest" {
		id, _ := gen.IdentSpec{SigType: s.SigType, EncType: 4, KeySeed: s.KeySeed, PadSeed: 9}.Build()
		d, derr := libDest(id)
		if derr != nil {
			return derr
		}
		els, err = encrypted_leaseset.NewEncryptedLeaseSetFromDestination(d, s.Published, s.Expires, flags, off, inner, keyRep(c.Rep, signer))
	} else {
		els, err = encrypted_leaseset.NewEncryptedLeaseSet(uint16(s.SigType), bk.Pub, s.Published, s.Expires, flags, off, inner, keyRep(c.Rep, signer))
	}
	if err != nil {
		return fmt.Errorf("%s rejected admissible arguments (sig %d, expires %d, flags %#x, inner %d, key rep %d): %v", c.Kind, s.SigType, s.Expires, flags, len(inner), c.Rep%4, err)
	}
	r.Class(fmt.Sprintf("%s:keyrep%d", c.Kind, c.Rep%4))
	if err := els.Verify(); err != nil {
		return fmt.Errorf("%s output does not verify: %v", c.Kind, err)
	}
	b, err := els.Bytes()
	if err != nil {
		return err
	}
	wire := append([]byte{}, b...)
	back, rem, err := encrypted_leaseset.ReadEncryptedLeaseSet(wire)
	if err != nil || len(rem) != 0 {
		return fmt.Errorf("ReadEncryptedLeaseSet(%s(...).Bytes()) failed: %v (remainder %d)", c.Kind, err, len(rem))
	}
	if err := back.Verify(); err != nil {
		return fmt.Errorf("EncryptedLeaseSet no longer verifies after serialise+parse: %v", err)
	}
	reuse(wire)
	if err := back.Verify(); err != nil {
		return fmt.Errorf("EncryptedLeaseSet parsed back from its bytes no longer verifies once the receive buffer is reused for other data: %v", err)
	}
	if n := touch(els) + touch(back); n > 0 {
		if err := els.Verify(); err != nil {
			return fmt.Errorf("EncryptedLeaseSet built by the constructor no longer verifies after its argument-free accessors were called: %v", err)
		}
		if err := back.Verify(); err != nil {
			return fmt.Errorf("EncryptedLeaseSet parsed back no longer verifies after its argument-free accessors were called: %v", err)
		}
	}
	dm, n, err := model.DecodeELS(b)
	if err != nil || n != len(b) {
		return fmt.Errorf("independent decoder rejects %s output: %v", c.Kind, err)
	}
	msg := append([]byte{5}, b[:len(b)-len(dm.Sig)]...)
	if dm.Offline != nil {
		if !model.Verify(dm.Offline.TType, dm.Offline.TKey, msg, dm.Sig) || !model.Verify(s.SigType, bk.Pub, dm.Offline.SignedPart(), dm.Offline.Sig) {
			return fmt.Errorf("independent verifier rejects the EncryptedLeaseSet signature chain (offline)")
		}
	} else if !model.Verify(s.SigType, bk.Pub, msg, dm.Sig) {
		return fmt.Errorf("independent verifier rejects the EncryptedLeaseSet signature (0x05 || content)")
	}
	r.NonTrivial(c, []byte(c.Kind), b[:len(b)-len(dm.Sig)])
	return nil
}

func checkOffline(c Case, r *ev.Rec) error {
	s := c.LS2.Header
	id, key := s.Dest.Build()
	tpub := model.Fill(model.SigPubLen[s.Offline.TType], s.Offline.Seed)
	if tk := model.NewSignKey(s.Offline.TType, s.Offline.Seed); tk != nil {
		tpub = tk.Pub
	}
	destType := id.SigType
	if c.PH && id.SigType == 7 {
		destType = 8 // Ed25519ph: the same key material, pre-hashed signing; if the constructor signs, the result must verify
	}
	off, err := offline_signature.CreateOfflineSignature(s.Offline.Expires, uint16(s.Offline.TType), tpub, edPriv(key), uint16(destType))
	if destType == 8 && err != nil {
		r.Class("offline:ed25519ph-not-signed")
		return nil
	}
	if s.Offline.Expires == 0 {
		if err == nil {
			return fmt.Errorf("CreateOfflineSignature accepted expires = 0")
		}
		r.Class("offline:refused-zero-expiry")
		return nil
	}
	if err != nil {
		return fmt.Errorf("CreateOfflineSignature(transient %d, destination %d) refused: %v", s.Offline.TType, id.SigType, err)
	}
	if ok, err := off.VerifySignature(id.Sig); !ok || err != nil {
		return fmt.Errorf("CreateOfflineSignature output does not verify under the destination key: %v %v", ok, err)
	}
	b := off.Bytes()
	wire := append(append([]byte{}, b...), 1, 2)
	back, rem, err := offline_signature.ReadOfflineSignature(wire, uint16(destType))
	if err != nil || len(rem) != 2 {
		return fmt.Errorf("ReadOfflineSignature(Bytes()) failed: %v (remainder %d)", err, len(rem))
	}
	if ok, err := back.VerifySignature(id.Sig); !ok || err != nil {
		return fmt.Errorf("offline signature no longer verifies after serialise+parse: %v %v", ok, err)
	}
	reuse(wire)
	if ok, err := back.VerifySignature(id.Sig); !ok || err != nil {
		return fmt.Errorf("offline signature parsed back from its bytes no longer verifies once the receive buffer is reused for other data: %v %v", ok, err)
	}
	if destType == 8 {
		r.Class("offline:ed25519ph-signed-and-verified")
		return nil // the model has no pre-hashed verifier; the library's own verdicts above are the check
	}
	dm, n, err := model.DecodeOffline(b, id.SigType)
	if err != nil || n != len(b) || !model.Verify(id.SigType, id.Sig, dm.SignedPart(), dm.Sig) {
		return fmt.Errorf("independent verifier rejects the offline signature (%v)", err)
	}
	if !bytes.Equal(dm.TKey, tpub) || dm.Expires != s.Offline.Expires {
		return fmt.Errorf("offline block does not carry the arguments")
	}
	r.Class(fmt.Sprintf("offline:dest%d-transient%d", id.SigType, s.Offline.TType))
	r.NonTrivial(c, []byte("offline"), b[:len(b)-64])
	return nil
}

func check(c Case, r *ev.Rec) error {
	switch c.Kind {
	case "ri":
		return checkRI(c, r)
	case "ls":
		return checkLS(c, r)
	case "ls2":
		return checkLS2(c, r)
	case "els", "elsdest":
		return checkELS(c, r)
	case "offline":
		return checkOffline(c, r)
	}
	return nil
}

func genCase(t *rapid.T) Case {
	c := Case{Kind: rapid.SampledFrom([]string{"ri", "ri", "ls", "ls2", "ls2", "els", "elsdest", "offline"}).Draw(t, "kind")}
	switch c.Kind {
	case "ri":
		s := gen.RouterInfoG(t, "ri", []int{7})
		s.Ident.NullCert = false
		if s.Published >= 1<<63 {
			s.Published >>= 1
		}
		for i := range s.Addrs {
			if s.Addrs[i].Style == "" {
				s.Addrs[i].Style = "78" // the constructor documents a non-empty transport style
			}
			s.Addrs[i].Expiration = 0
		}
		c.RI = &s
	case "ls":
		s := gen.LeaseSetG(t, "ls")
		s.Dest.SigType = rapid.SampledFrom([]int{7, 7, 11, 0, 0, 1}).Draw(t, "lssig")
		s.Dest.EncType = rapid.SampledFrom([]int{0, 4}).Draw(t, "lsenc")
		if s.Dest.SigType != 0 || s.Dest.EncType != 0 {
			s.Dest.NullCert = false
		}
		c.LS = &s
	case "ls2":
		s := gen.LS2G(t, "ls2", []int{7, 7, 11, 0, 1})
		s.Keys = gen.KeysG(t, "skeys", rapid.IntRange(0, 7).Draw(t, "knownkeytypes") != 0) // one case in eight also carries keys of unassigned and experimental types (any length)
		if s.Header.Offline != nil {
			if s.Header.Dest.SigType == 1 {
				s.Header.Dest.SigType = 0 // P-256 destinations: known finding F-ECDSA-VERIFY whatever the block
			}
			s.Header.Offline.TType = rapid.SampledFrom([]int{7, 11, 0, 1}).Draw(t, "ttype")
		}
		c.LS2 = &s
	case "els", "elsdest":
		s := gen.ELSG(t, "els", []int{7, 11})
		if s.Offline != nil {
			s.Offline.TType = rapid.SampledFrom([]int{7, 11}).Draw(t, "ttype")
		}
		c.ELS = &s
		c.Rep = rapid.IntRange(0, 3).Draw(t, "rep")
	case "offline":
		s := gen.LS2Spec{Header: gen.HeaderG(t, "hdr", []int{7, 11}, nil)}
		s.Header.Dest.NullCert = false
		s.Header.Offline = gen.OfflineG(t, "off", []int{7, 11, 0, 1, 2, 3, 4})
		c.LS2 = &s
		c.PH = rapid.IntRange(0, 5).Draw(t, "ph") == 0
	}
	return c
}

var prop = &ev.Prop[Case]{Sub: "signverify", Quick: 80000, Thorough: 600000, Gen: genCase, Check: check}

func TestRegress(t *testing.T) { prop.Regress(t) }
func TestReplay(t *testing.T)  { prop.Replay(t) }
func TestProp(t *testing.T)    { prop.Run(t) }
