// Package c11 decides property C11: Mapping map->bytes->map identity,
// canonical (sorted, deterministic) encoding, exact size field, rejection
// beyond the limits, and byte-exact re-serialisation of mappings parsed
// without error.
package c11

import (
	"bytes"
	"fmt"
	"sort"
	"strings"
	"testing"

	"github.com/go-i2p/common/data"
	"pgregory.net/rapid"

	"verif/internal/ev"
	"verif/internal/gen"
	"verif/internal/model"
)

const rule = "cases: Go maps of 0..40 pairs with key/value lengths from {0,1,2,5,254,255} and uniform 0..255 over the full byte alphabet (boosted '=', ';', NUL, >=0x80), maps of 4..60 minimal pairs (one-byte or empty key, empty or one-byte value), maps whose encoded size lands on 65535-3..65535+3, strings of 256..300 bytes; parser inputs: model encodings with structure-aware mutations (size field +-k, junk inside the declared size, truncation, delimiter flips, duplicated pairs, appended bytes) and arbitrary bytes. Oracle: independent strict mapping codec (internal/model). Non-trivial: map with >= 2 pairs or an edge-length string (0,1,254,255 bytes), or a parser input of >= 4 bytes that is not an unmodified encoding; distinct by hash of the sorted pair list / input bytes."

func TestMain(m *testing.M) { ev.Main(m, "C11", rule) }

const trailingWarning = "warning parsing mapping: data exists beyond length of mapping"

// accepted: no errors, or only the warning that is emitted whenever anything
// follows the mapping (the library's own callers filter exactly this text).
func accepted(errs []error) bool {
	for _, e := range errs {
		if e == nil || !strings.Contains(e.Error(), trailingWarning) {
			return false
		}
	}
	return true
}

func errText(errs []error) string {
	var s []string
	for _, e := range errs {
		s = append(s, e.Error())
	}
	return strings.Join(s, " ; ")
}

// ---------------------------------------------------------------------------
// map -> bytes -> map

type MapCase struct {
	Pairs  [][2]string `json:"pairs_hex"` // unique keys
	Suffix string      `json:"suffix_hex"`
}

func (c MapCase) toMap() map[string]string {
	m := map[string]string{}
	for _, p := range c.Pairs {
		m[string(ev.UnH(p[0]))] = string(ev.UnH(p[1]))
	}
	return m
}

func edgeLen(n int) bool { return n == 0 || n == 1 || n == 254 || n == 255 }

func checkMap(c MapCase, r *ev.Rec) error {
	m := c.toMap()
	pairs := model.PairsFromMap(m)
	want, werr := model.EncodeMapping(pairs)
	mp, err := data.GoMapToMapping(m)
	if werr != nil {
		r.Class("map:over-limit")
		if err == nil {
			got := mp.Data()
			return fmt.Errorf("GoMapToMapping accepted an over-limit map (%v): produced %d bytes, size field % x", werr, len(got), got[:2])
		}
		r.NonTrivial(c, []byte("over"), []byte(fmt.Sprint(model.MappingBodyLen(pairs))), []byte(fmt.Sprint(len(pairs))))
		return nil
	}
	r.Class("map:in-limit")
	if err != nil || mp == nil {
		return fmt.Errorf("GoMapToMapping rejected an in-limit map (%d pairs, body %d): %v", len(pairs), len(want)-2, err)
	}
	got := mp.Data()
	if !bytes.Equal(got, want) {
		return fmt.Errorf("GoMapToMapping(...).Data() differs from the canonical encoding:\n got  % x\n want % x", clip(got), clip(want))
	}
	if model.GetU16(got) != len(got)-2 {
		return fmt.Errorf("size field %d != %d bytes that follow", model.GetU16(got), len(got)-2)
	}
	// deterministic across Go's randomised iteration
	for i := 0; i < 4; i++ {
		m2 := c.toMap()
		mp2, err := data.GoMapToMapping(m2)
		if err != nil || !bytes.Equal(mp2.Data(), want) {
			return fmt.Errorf("conversion %d of the same map gave different bytes (err %v)", i+2, err)
		}
	}
	// ValuesToMapping on the pairs in reverse order gives the same bytes
	mv := data.MappingValues{}
	for i := len(pairs) - 1; i >= 0; i-- {
		k, _ := data.NewI2PString(string(pairs[i].K))
		v, _ := data.NewI2PString(string(pairs[i].V))
		mv = append(mv, [2]data.I2PString{k, v})
	}
	mp3, err := data.ValuesToMapping(mv)
	if err != nil || !bytes.Equal(mp3.Data(), want) {
		return fmt.Errorf("ValuesToMapping(reversed pairs) differs from the canonical encoding (err %v)", err)
	}
	// parse back
	back, rem, errs := data.ReadMapping(want)
	if len(errs) != 0 {
		return fmt.Errorf("ReadMapping(Data()) reported errors: %s\n bytes % x", errText(errs), clip(want))
	}
	if len(rem) != 0 {
		return fmt.Errorf("ReadMapping(Data()) left %d bytes", len(rem))
	}
	gm, err := back.ToGoMap()
	if err != nil {
		return fmt.Errorf("ToGoMap after round trip: %v", err)
	}
	if len(gm) != len(m) {
		return fmt.Errorf("round trip changed the number of pairs: %d -> %d\n bytes % x", len(m), len(gm), clip(want))
	}
	for k, v := range m {
		if gv, ok := gm[k]; !ok || gv != v {
			return fmt.Errorf("round trip lost or changed key %q: %q -> %q (present %v)", k, v, gv, ok)
		}
	}
	vals := back.Values()
	if len(vals) != len(pairs) {
		return fmt.Errorf("Values() has %d pairs, want %d", len(vals), len(pairs))
	}
	for i, p := range pairs {
		k, kerr := vals[i][0].Data()
		v, verr := vals[i][1].Data()
		if kerr != nil || verr != nil || k != string(p.K) || v != string(p.V) {
			return fmt.Errorf("Values()[%d] = %q=%q (%v,%v), want %q=%q", i, k, v, kerr, verr, p.K, p.V)
		}
		lk, _ := data.NewI2PString(string(p.K))
		if gv := vals.Get(lk); len(gv) == 0 || string(gv[1:]) != string(p.V) {
			return fmt.Errorf("Values().Get(%q) = % x, want %q", p.K, gv, p.V)
		}
	}
	if !bytes.Equal(back.Data(), want) {
		return fmt.Errorf("parsed mapping re-serialises differently:\n got  % x\n want % x", clip(back.Data()), clip(want))
	}
	if err := back.Validate(); err != nil {
		return fmt.Errorf("Validate() after round trip: %v", err)
	}
	if d, err := back.HasDuplicateKeys(); err != nil || d {
		return fmt.Errorf("HasDuplicateKeys() = %v,%v", d, err)
	}
	// the pointer twin and a suffix
	suf := ev.UnH(c.Suffix)
	if len(suf) > 0 {
		in := append(append([]byte{}, want...), suf...)
		pm, prem, perrs := data.NewMapping(in)
		if !accepted(perrs) {
			return fmt.Errorf("NewMapping(encoding ++ suffix) reported: %s", errText(perrs))
		}
		if !bytes.Equal(prem, suf) || !bytes.Equal(pm.Data(), want) {
			return fmt.Errorf("NewMapping(encoding ++ %d bytes): remainder %d bytes, data equal %v", len(suf), len(prem), bytes.Equal(pm.Data(), want))
		}
	}
	// classification
	edge := false
	short := false
	for _, p := range pairs {
		if edgeLen(len(p.K)) || edgeLen(len(p.V)) {
			edge = true
		}
	}
	if n := len(pairs); n > 0 {
		last := pairs[n-1]
		if len(last.K)+len(last.V)+4 < 6 {
			short = true
			r.Class("map:last-pair-under-6-bytes")
		}
	}
	if len(want) > 65000 {
		r.Class("map:near-65535")
	}
	r.Class(fmt.Sprintf("map:pairs=%s", bucket(len(pairs))))
	if len(pairs) >= 2 || edge || short {
		r.NonTrivial(c, []byte("map"), want)
	}
	return nil
}

func bucket(n int) string {
	switch {
	case n == 0:
		return "0"
	case n == 1:
		return "1"
	case n <= 4:
		return "2-4"
	case n <= 16:
		return "5-16"
	default:
		return "17+"
	}
}

func clip(b []byte) []byte {
	if len(b) > 96 {
		return b[:96]
	}
	return b
}

var specialBytes = []byte{'=', ';', 0, 0xff, 0x80, 'a', 'b', 'z', ' ', 0x3c}

func genStrBytes(t *rapid.T, label string) []byte {
	var n int
	switch rapid.IntRange(0, 5).Draw(t, label+"-lenkind") {
	case 0:
		n = rapid.SampledFrom([]int{0, 0, 1, 1, 2, 5, 254, 255}).Draw(t, label+"-len")
	case 1:
		n = rapid.IntRange(0, 255).Draw(t, label+"-len")
	default:
		n = rapid.IntRange(1, 12).Draw(t, label+"-len")
	}
	if n <= 12 {
		b := make([]byte, n)
		for i := range b {
			if rapid.IntRange(0, 2).Draw(t, "sp") == 0 {
				b[i] = rapid.SampledFrom(specialBytes).Draw(t, "spb")
			} else {
				b[i] = rapid.Byte().Draw(t, "b")
			}
		}
		return b
	}
	b := model.Fill(n, rapid.Uint64().Draw(t, label+"-seed"))
	for k := rapid.IntRange(0, 3).Draw(t, "ov"); k > 0; k-- {
		b[rapid.IntRange(0, n-1).Draw(t, "pos")] = rapid.SampledFrom(specialBytes).Draw(t, "spb")
	}
	return b
}

func genMap(t *rapid.T) MapCase {
	kind := rapid.IntRange(0, 9).Draw(t, "kind")
	var c MapCase
	seen := map[string]bool{}
	add := func(k, v []byte) {
		if seen[string(k)] {
			return
		}
		seen[string(k)] = true
		c.Pairs = append(c.Pairs, [2]string{ev.H(k), ev.H(v)})
	}
	switch {
	case kind == 0: // size around the 65,535 limit: 127 pairs of 514 bytes = 65,278, last pair lands on 65,535+delta
		for i := 0; i < 127; i++ {
			k := model.Fill(255, uint64(i)+1)
			k[0], k[1] = byte(i), 0x55
			add(k, model.Fill(255, uint64(i)+1000))
		}
		delta := rapid.IntRange(-3, 3).Draw(t, "delta")
		tot := 257 + delta - 4 // key+value bytes of the last pair
		kl := rapid.IntRange(max(0, tot-255), min(255, tot)).Draw(t, "klen")
		k := model.Fill(kl, 7777)
		if kl > 0 {
			k[0] = 0xfe
		}
		add(k, model.Fill(tot-kl, 8888))
	case kind == 1: // over-long string
		n := rapid.IntRange(0, 3).Draw(t, "n")
		for i := 0; i < n; i++ {
			add(genStrBytes(t, "k"), genStrBytes(t, "v"))
		}
		long := model.Fill(rapid.IntRange(256, 300).Draw(t, "longlen"), 5)
		if rapid.Bool().Draw(t, "longkey") {
			add(long, genStrBytes(t, "v"))
		} else {
			add(genStrBytes(t, "k"), long)
		}
	case kind == 3 && rapid.Bool().Draw(t, "tiny"): // many minimal pairs: 1-byte keys (the empty key too), empty or 1-byte values
		n := rapid.IntRange(4, 60).Draw(t, "ntiny")
		for i := 0; i < n; i++ {
			var k, v []byte
			if rapid.IntRange(0, 19).Draw(t, "emptykey") != 0 {
				k = []byte{rapid.Byte().Draw(t, "k1")}
			}
			if rapid.IntRange(0, 3).Draw(t, "hasv") == 0 {
				v = []byte{rapid.Byte().Draw(t, "v1")}
			}
			add(k, v)
		}
	default:
		n := rapid.IntRange(0, 6).Draw(t, "n")
		if kind == 2 {
			n = rapid.IntRange(7, 40).Draw(t, "n")
		}
		for i := 0; i < n; i++ {
			add(genStrBytes(t, "k"), genStrBytes(t, "v"))
		}
	}
	if rapid.Bool().Draw(t, "withsuffix") {
		c.Suffix = ev.H(rapid.SliceOfN(rapid.Byte(), 1, 9).Draw(t, "suffix"))
	}
	return c
}

var propMap = &ev.Prop[MapCase]{Sub: "map", Quick: 60000, Thorough: 3000000, Gen: genMap, Check: checkMap}

// ---------------------------------------------------------------------------
// parser direction: anything parsed without error re-serialises exactly

type ParseCase struct {
	Hex string `json:"hex"`
	How string `json:"how"`
}

func checkParse(c ParseCase, r *ev.Rec) error {
	in := ev.UnH(c.Hex)
	// parse a private copy inside a larger buffer (append-safety is C08's business)
	mp, rem, errs := data.ReadMapping(append([]byte{}, in...))
	r.Class("parse:how=" + c.How)
	if len(rem) > len(in) || !bytes.Equal(in[len(in)-len(rem):], rem) {
		return fmt.Errorf("remainder is not a suffix of the input (len %d of %d)", len(rem), len(in))
	}
	mpairs, mcons, mdup, merr := model.DecodeMapping(in)
	if !accepted(errs) {
		r.Class("parse:rejected")
		// completeness: a strictly well-formed mapping without duplicate keys must be accepted
		if merr == nil && !mdup && len(mpairs) <= 1000 {
			return fmt.Errorf("ReadMapping rejected a well-formed mapping (%d pairs, %d bytes): %s\n input % x", len(mpairs), mcons, errText(errs), clip(in))
		}
		return nil
	}
	r.Class("parse:accepted")
	consumed := in[:len(in)-len(rem)]
	out := mp.Data()
	if !bytes.Equal(out, consumed) {
		return fmt.Errorf("mapping parsed without error re-serialises differently:\n consumed % x\n Data()   % x", clip(consumed), clip(out))
	}
	if merr != nil {
		return fmt.Errorf("ReadMapping accepted bytes the strict decoder rejects (%v): % x", merr, clip(in))
	}
	if mcons != len(consumed) {
		return fmt.Errorf("consumed %d bytes, declared extent is %d", len(consumed), mcons)
	}
	vals := mp.Values()
	if len(vals) != len(mpairs) {
		return fmt.Errorf("parsed %d pairs, strict decoder %d", len(vals), len(mpairs))
	}
	if c.How != "valid" && len(in) >= 4 {
		r.NonTrivial(c, []byte("parse"), in)
	}
	return nil
}

func genParse(t *rapid.T) ParseCase {
	how := rapid.SampledFrom([]string{"valid", "size+", "size-", "junk-inside", "truncate", "delim", "dup", "append", "arbitrary", "unsorted", "strlen"}).Draw(t, "how")
	if how == "arbitrary" {
		b := rapid.SliceOfN(rapid.Byte(), 0, 40).Draw(t, "raw")
		if len(b) >= 2 && rapid.Bool().Draw(t, "fixsize") {
			b[0], b[1] = 0, byte(rapid.IntRange(0, len(b)).Draw(t, "sz"))
		}
		return ParseCase{Hex: ev.H(b), How: how}
	}
	n := rapid.IntRange(0, 5).Draw(t, "n")
	var pairs []model.Pair
	seen := map[string]bool{}
	for i := 0; i < n; i++ {
		k := genStrBytes(t, "k")
		if len(k) > 40 {
			k = k[:40]
		}
		if seen[string(k)] {
			continue
		}
		seen[string(k)] = true
		v := genStrBytes(t, "v")
		if len(v) > 40 {
			v = v[:40]
		}
		pairs = append(pairs, model.Pair{K: k, V: v})
	}
	if how != "unsorted" {
		sort.Slice(pairs, func(i, j int) bool { return string(pairs[i].K) < string(pairs[j].K) })
	}
	if how == "dup" && len(pairs) > 0 {
		pairs = append(pairs, pairs[rapid.IntRange(0, len(pairs)-1).Draw(t, "dupidx")])
	}
	b := model.MustMapping(pairs)
	body := len(b) - 2
	switch how {
	case "size+":
		nb := body + rapid.IntRange(1, 8).Draw(t, "d")
		b[0], b[1] = byte(nb>>8), byte(nb)
		if rapid.Bool().Draw(t, "fillup") {
			b = append(b, rapid.SliceOfN(rapid.Byte(), nb-body, nb-body).Draw(t, "fill")...)
		}
	case "size-":
		if body > 0 {
			nb := body - rapid.IntRange(1, min(body, 8)).Draw(t, "d")
			b[0], b[1] = byte(nb>>8), byte(nb)
		}
	case "junk-inside":
		j := rapid.SliceOfN(rapid.Byte(), 1, 9).Draw(t, "junk")
		nb := body + len(j)
		b[0], b[1] = byte(nb>>8), byte(nb)
		b = append(b, j...)
	case "truncate":
		if len(b) > 0 {
			b = b[:rapid.IntRange(0, len(b)-1).Draw(t, "cut")]
		}
	case "delim":
		if body > 0 {
			p := 2 + rapid.IntRange(0, body-1).Draw(t, "pos")
			b[p] = rapid.SampledFrom([]byte{'=', ';', 0, 1, 0xff}).Draw(t, "val")
		}
	case "strlen":
		if body > 0 {
			p := 2 + rapid.IntRange(0, body-1).Draw(t, "pos")
			b[p] = byte(int(b[p]) + rapid.IntRange(-2, 2).Draw(t, "d"))
		}
	}
	if how == "append" || rapid.IntRange(0, 3).Draw(t, "sfx") == 0 {
		b = append(b, rapid.SliceOfN(rapid.Byte(), 1, 9).Draw(t, "suffix")...)
	}
	return ParseCase{Hex: ev.H(b), How: how}
}

var propParse = &ev.Prop[ParseCase]{Sub: "parse", Quick: 150000, Thorough: 8000000, Gen: genParse, Check: checkParse}

// ---------------------------------------------------------------------------

func TestRegress(t *testing.T)   { propMap.Regress(t); propParse.Regress(t) }
func TestReplay(t *testing.T)    { _ = propMap.Replay(t) || propParse.Replay(t) }
func TestPropMap(t *testing.T)   { propMap.Run(t) }
func TestPropParse(t *testing.T) { propParse.Run(t) }

// TestEnumTiny: every map with one pair whose key and value are 0..1 bytes
// from a 6-symbol alphabet, and every two-pair combination of those (the
// "fewer than six bytes" window, enumerated completely).
func TestEnumTiny(t *testing.T) {
	ev.Enumerate(t, "tiny-maps", false, func(_, _ int, r *ev.Rec) error {
		alpha := []string{"", "a", "b", "=", ";", "\x00"}
		type kv struct{ k, v string }
		var all []kv
		for _, k := range alpha {
			for _, v := range alpha {
				all = append(all, kv{k, v})
			}
		}
		for _, p := range all {
			if err := propMap.One(MapCase{Pairs: [][2]string{{ev.H([]byte(p.k)), ev.H([]byte(p.v))}}}); err != nil {
				return err
			}
			for _, q := range all {
				if q.k == p.k {
					continue
				}
				c := MapCase{Pairs: [][2]string{{ev.H([]byte(p.k)), ev.H([]byte(p.v))}, {ev.H([]byte(q.k)), ev.H([]byte(q.v))}}}
				if err := propMap.One(c); err != nil {
					return err
				}
			}
		}
		return nil
	})
}

// FuzzParse: coverage-guided search over parser inputs (thorough tier).
func FuzzParse(f *testing.F) {
	f.Add([]byte{0, 0})
	f.Add([]byte{0, 6, 1, 'a', '=', 1, 'b', ';'})
	f.Add([]byte{0, 5, 1, 'a', '=', 0, ';'})
	f.Add([]byte{0, 4, 0, '=', 0, ';'})
	f.Add([]byte{0, 9, 1, 'a', '=', 1, 'b', ';', 'X', 'Y', 'Z'})
	f.Add([]byte{0, 12, 1, 'a', '=', 1, 'b', ';', 1, 'a', '=', 1, 'c', ';'})
	for _, in := range gen.FixedInputs("data.ReadMapping") {
		f.Add(in.Bytes())
	}
	propParse.Fuzz(f, func(b []byte) (ParseCase, bool) {
		if len(b) > 70000 {
			return ParseCase{}, false
		}
		return ParseCase{Hex: ev.H(b), How: "fuzz"}, true
	})
}
