package c10

import "time"

type timeT = time.Time

func timeUnix(s int64) time.Time { return time.Unix(s, 0) }
