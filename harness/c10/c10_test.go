// Package c10 decides property C10: the key/signature size tables agree over
// the whole 16-bit code space, and the 384-byte key block has the layout the
// specification prescribes.
package c10

import (
	"bytes"
	stded "crypto/ed25519"
	"fmt"
	"sort"
	"testing"

	"github.com/go-i2p/common/certificate"
	"github.com/go-i2p/common/data"
	"github.com/go-i2p/common/destination"
	"github.com/go-i2p/common/encrypted_leaseset"
	"github.com/go-i2p/common/key_certificate"
	"github.com/go-i2p/common/keys_and_cert"
	"github.com/go-i2p/common/lease"
	"github.com/go-i2p/common/lease_set2"
	"github.com/go-i2p/common/offline_signature"
	"github.com/go-i2p/common/router_identity"
	"github.com/go-i2p/common/signature"
	"pgregory.net/rapid"

	"verif/internal/ev"
	"verif/internal/gen"
	"verif/internal/libkeys"
	"verif/internal/model"
)

const rule = "part 1 (exhaustive): every signing-type code and every crypto-type code 0..65535 through every size lookup (two maps + constants in key_certificate, GetKeySizes/GetSigningKeySize/GetCryptoKeySize/GetSignatureSize, KeyCertificate.{SignatureSize,SigningPublicKeySize,CryptoSize,CryptoPublicKeySize}, signature.SignatureSize, offline_signature.{SigningPublicKeySize,SignatureSize}) plus behavioural probes (LeaseSet2.Validate on a key of that type with right/wrong length, ReadEncryptedLeaseSet and ReadOfflineSignature framing with that type, NewEncryptedLeaseSet with a blinded key of that type at the table's length and at every other table length +-1 (the value carries an Ed25519 transient key, so the constructor can sign whatever the blinded type is)): all answers must agree with each other, and with the specification table for the codes it defines (reserved codes: mutual agreement only). (key certificates for every code are also obtained through NewKeyCertificateWithTypes, the certificate builder and the parser and must declare that code, serialise to it and answer like the tables; the leaseset key validation is probed with the key alone, in second position after an X25519 and after an ElGamal key, and in first position before another key) part 2 (generated): identities of every supported (signing, crypto) pair with arbitrary key, padding and certificate bytes through the parser, ReadDestination / ReadRouterIdentity, the constructor and the two key-type-specific readers (which must accept their own pair and, for whatever else they accept, obey the same layout): key bytes at [0,cs) and [384-ss,384), padding exactly between, declared sizes = lengths of the keys returned. Non-trivial: code known to at least one table, or an identity with non-empty padding; distinct by code / identity bytes."

func TestMain(m *testing.M) { ev.Main(m, "C10", rule) }

// ---------------------------------------------------------------------------
// part 1

type CodeCase struct {
	Kind string `json:"kind"` // sig | enc
	Code int    `json:"code"`
}

type answer struct {
	who   string
	known bool
	pub   int // public key length, -1 = not reported by this lookup
	sig   int // signature length, -1 = not reported
}

func sigAnswers(code int) []answer {
	var out []answer
	if info, ok := key_certificate.SigningKeySizes[code]; ok {
		out = append(out, answer{"key_certificate.SigningKeySizes", true, info.SigningPublicKeySize, info.SignatureSize})
	} else {
		out = append(out, answer{"key_certificate.SigningKeySizes", false, -1, -1})
	}
	if n, ok := key_certificate.SignaturePublicKeySizes[uint16(code)]; ok {
		out = append(out, answer{"key_certificate.SignaturePublicKeySizes", true, n, -1})
	} else {
		out = append(out, answer{"key_certificate.SignaturePublicKeySizes", false, -1, -1})
	}
	n, err := key_certificate.GetSigningKeySize(code)
	out = append(out, answer{"key_certificate.GetSigningKeySize", err == nil, orNeg(err == nil, n), -1})
	n, err = key_certificate.GetSignatureSize(code)
	out = append(out, answer{"key_certificate.GetSignatureSize", err == nil, -1, orNeg(err == nil, n)})
	ks, err := key_certificate.GetKeySizes(code, 0)
	out = append(out, answer{"key_certificate.GetKeySizes", err == nil, orNeg(err == nil, ks.SigningPublicKeySize), orNeg(err == nil, ks.SignatureSize)})
	kc := key_certificate.KeyCertificate{SpkType: data.Integer{byte(code >> 8), byte(code)}, CpkType: data.Integer{0, 0}}
	ss, ps := kc.SignatureSize(), kc.SigningPublicKeySize()
	out = append(out, answer{"KeyCertificate.SignatureSize/SigningPublicKeySize", ss != 0 || ps != 0, orNeg(ps != 0, ps), orNeg(ss != 0, ss)})
	// a per-code answer does not depend on the certificate's other code (here: an unassigned crypto code)
	kcu := key_certificate.KeyCertificate{SpkType: data.Integer{byte(code >> 8), byte(code)}, CpkType: data.Integer{0x27, 0x0f}}
	ssu, psu := kcu.SignatureSize(), kcu.SigningPublicKeySize()
	out = append(out, answer{"KeyCertificate.SignatureSize/SigningPublicKeySize (crypto code 9999 beside it)", ssu != 0 || psu != 0, orNeg(psu != 0, psu), orNeg(ssu != 0, ssu)})
	n, err = signature.SignatureSize(code)
	out = append(out, answer{"signature.SignatureSize", err == nil, -1, orNeg(err == nil, n)})
	op, os := offline_signature.SigningPublicKeySize(uint16(code)), offline_signature.SignatureSize(uint16(code))
	out = append(out, answer{"offline_signature.SigningPublicKeySize", op != 0, orNeg(op != 0, op), -1})
	out = append(out, answer{"offline_signature.SignatureSize", os != 0, -1, orNeg(os != 0, os)})
	return out
}

func orNeg(ok bool, n int) int {
	if ok {
		return n
	}
	return -1
}

func checkSigCode(code int, r *ev.Rec) error {
	ans := sigAnswers(code)
	wantPub, specKnown := model.SigPubLen[code]
	wantSig := model.SigLen[code]
	for _, a := range ans {
		if specKnown {
			if !a.known {
				return fmt.Errorf("signing type %d is in the specification table (key %d, signature %d bytes) but %s does not know it", code, wantPub, wantSig, a.who)
			}
			if a.pub >= 0 && a.pub != wantPub {
				return fmt.Errorf("signing type %d: %s reports a %d-byte public key, the specification says %d", code, a.who, a.pub, wantPub)
			}
			if a.sig >= 0 && a.sig != wantSig {
				return fmt.Errorf("signing type %d: %s reports a %d-byte signature, the specification says %d", code, a.who, a.sig, wantSig)
			}
		}
	}
	// mutual agreement (also for reserved / unknown codes)
	for _, a := range ans[1:] {
		if a.known != ans[0].known {
			return fmt.Errorf("signing type %d: %s says known=%v, %s says known=%v", code, ans[0].who, ans[0].known, a.who, a.known)
		}
	}
	pub, sig := -1, -1
	for _, a := range ans {
		if a.pub >= 0 {
			if pub >= 0 && a.pub != pub {
				return fmt.Errorf("signing type %d: lookups disagree on the public key length (%d vs %d at %s)", code, pub, a.pub, a.who)
			}
			pub = a.pub
		}
		if a.sig >= 0 {
			if sig >= 0 && a.sig != sig {
				return fmt.Errorf("signing type %d: lookups disagree on the signature length (%d vs %d at %s)", code, sig, a.sig, a.who)
			}
			sig = a.sig
		}
	}
	// a key certificate for this code obtained through the constructors and through the parser
	// declares exactly this code and answers the size questions like the tables
	for _, route := range []struct {
		name string
		mk   func() (*key_certificate.KeyCertificate, error)
	}{
		{"NewKeyCertificateWithTypes(code, 4)", func() (*key_certificate.KeyCertificate, error) {
			return key_certificate.NewKeyCertificateWithTypes(code, 4)
		}},
		{"NewKeyCertificate(05 0004 <code> 0004)", func() (*key_certificate.KeyCertificate, error) {
			kc, _, err := key_certificate.NewKeyCertificate([]byte{5, 0, 4, byte(code >> 8), byte(code), 0, 4})
			return kc, err
		}},
		{"CertificateBuilder.WithKeyTypes(code, 4) -> KeyCertificateFromCertificate", func() (*key_certificate.KeyCertificate, error) {
			b, err := certificate.NewCertificateBuilder().WithKeyTypes(code, 4)
			if err != nil {
				return nil, err
			}
			c, err := b.Build()
			if err != nil {
				return nil, err
			}
			return key_certificate.KeyCertificateFromCertificate(c)
		}},
	} {
		kc, err := route.mk()
		if err != nil || kc == nil {
			continue
		}
		if got := kc.SigningPublicKeyType(); got != code {
			return fmt.Errorf("signing type %d: the key certificate from %s declares signing type %d", code, route.name, got)
		}
		if want := []byte{5, 0, 4, byte(code >> 8), byte(code), 0, 4}; !bytes.Equal(kc.Bytes(), want) {
			return fmt.Errorf("signing type %d: the key certificate from %s serialises to % x, want % x", code, route.name, kc.Bytes(), want)
		}
		ss, ps := kc.SignatureSize(), kc.SigningPublicKeySize()
		if (ss != 0 || ps != 0) != ans[0].known || (ans[0].known && (ps != pub || ss != sig)) {
			return fmt.Errorf("signing type %d: the key certificate from %s reports key %d / signature %d bytes, the tables say known=%v %d / %d", code, route.name, ps, ss, ans[0].known, pub, sig)
		}
	}
	// behavioural probes: framing of a signature / offline signature / encrypted leaseset of that type
	known := ans[0].known
	if known {
		buf := model.Fill(sig+5, uint64(code)+1)
		s, rem, err := signature.ReadSignature(buf, code)
		if err != nil || len(rem) != 5 || s.Len() != sig {
			return fmt.Errorf("signing type %d: ReadSignature consumed %d of %d bytes (err %v), table says %d", code, len(buf)-len(rem), len(buf), err, sig)
		}
		if _, _, err := signature.ReadSignature(buf[:sig-1], code); err == nil {
			return fmt.Errorf("signing type %d: ReadSignature accepted %d bytes, table says %d", code, sig-1, sig)
		}
		// offline block: transient type = code, destination type = code
		off := append(append(model.U32(7), model.U16(code)...), model.Fill(pub+sig+3, 9)...)
		o, rem, err := offline_signature.ReadOfflineSignature(off, uint16(code))
		if err != nil || len(rem) != 3 || len(o.TransientPublicKey()) != pub || len(o.Signature()) != sig {
			return fmt.Errorf("signing type %d: ReadOfflineSignature framing disagrees with the tables (err %v, rem %d)", code, err, len(rem))
		}
		if _, _, err := offline_signature.ReadOfflineSignature(off[:6+pub+sig-1], uint16(code)); err == nil {
			return fmt.Errorf("signing type %d: ReadOfflineSignature accepted a block one byte short", code)
		}
		// encrypted leaseset with that blinded-key type: framing must use pub and sig
		e := model.ELS{SigType: code, Blinded: model.Fill(pub, 3), Published: 5, Expires: 9, Inner: model.Fill(61, 4), Sig: model.Fill(sig, 5)}
		enc := append(e.Encode(), 1, 2, 3, 4)
		els, rem, err := encrypted_leaseset.ReadEncryptedLeaseSet(enc)
		if err != nil || len(rem) != 4 || !bytes.Equal(els.BlindedPublicKey(), e.Blinded) {
			return fmt.Errorf("signing type %d: ReadEncryptedLeaseSet framing disagrees with the tables (err %v, rem %d)", code, err, len(rem))
		}
		// constructor-side key validation of the encrypted leaseset: the blinded key of this type is
		// accepted at the table's length and at no other (the outer signature is made by an
		// Ed25519 transient key, so that the constructor can sign whatever the blinded type is)
		if err := elsCtorProbe(code, pub, sig); err != nil {
			return err
		}
	} else {
		// (no offline block here: NewOfflineSignature itself refuses an unknown destination type)
		for _, n := range []int{32, 64, 128} {
			if els, err := encrypted_leaseset.NewEncryptedLeaseSet(uint16(code), model.Fill(n, 3), 5, 9, 0, nil, model.Fill(61, 4), stded.PrivateKey(elsTransient.Priv)); err == nil {
				return fmt.Errorf("signing type %d unknown to the tables but NewEncryptedLeaseSet accepts it (%d-byte key stored)", code, len(els.BlindedPublicKey()))
			}
		}
		if _, _, err := signature.ReadSignature(make([]byte, 600), code); err == nil {
			return fmt.Errorf("signing type %d unknown to the tables but ReadSignature accepts it", code)
		}
		off := append(append(model.U32(7), model.U16(code)...), make([]byte, 1200)...)
		if _, _, err := offline_signature.ReadOfflineSignature(off, 7); err == nil {
			return fmt.Errorf("signing type %d unknown to the tables but ReadOfflineSignature accepts it as transient type", code)
		}
		if _, _, err := offline_signature.ReadOfflineSignature(append(append(model.U32(7), model.U16(7)...), make([]byte, 1200)...), uint16(code)); err == nil {
			return fmt.Errorf("signing type %d unknown to the tables but ReadOfflineSignature accepts it as destination type", code)
		}
		enc := append(model.U16(code), make([]byte, 1200)...)
		if _, _, err := encrypted_leaseset.ReadEncryptedLeaseSet(enc); err == nil {
			return fmt.Errorf("signing type %d unknown to the tables but ReadEncryptedLeaseSet accepts it", code)
		}
	}
	if known || specKnown {
		r.NonTrivialStr(CodeCase{"sig", code}, "sig", fmt.Sprint(code))
	}
	return nil
}

var elsTransient = model.NewSignKey(7, 41)

// newELS calls NewEncryptedLeaseSet for a blinded key of the given type and length; the value
// carries an offline block (transient Ed25519 key, block signature of sigLen bytes), which is
// what makes the constructor sign with Ed25519 whatever the blinded type is.
func newELS(code, keyLen, sigLen int) (*encrypted_leaseset.EncryptedLeaseSet, error) {
	off, err := offline_signature.NewOfflineSignature(1<<31, 7, elsTransient.Pub, model.Fill(sigLen, 2), uint16(code))
	if err != nil {
		return nil, fmt.Errorf("offline block: %w", err)
	}
	return encrypted_leaseset.NewEncryptedLeaseSet(uint16(code), model.Fill(keyLen, 3), 5, 9, 1, &off, model.Fill(61, 4), stded.PrivateKey(elsTransient.Priv))
}

// keyLengths: every public-key length of the specification's table and their neighbours.
var keyLengths = func() []int {
	seen := map[int]bool{}
	var out []int
	for _, n := range model.SigPubLen {
		for _, d := range []int{-1, 0, 1} {
			if !seen[n+d] && n+d > 0 {
				seen[n+d] = true
				out = append(out, n+d)
			}
		}
	}
	sort.Ints(out)
	return out
}()

func elsCtorProbe(code, pub, sig int) error {
	els, err := newELS(code, pub, sig)
	if err != nil {
		return fmt.Errorf("signing type %d: known with a %d-byte public key, yet NewEncryptedLeaseSet refuses a blinded key of that length: %v", code, pub, err)
	}
	if len(els.BlindedPublicKey()) != pub {
		return fmt.Errorf("signing type %d: NewEncryptedLeaseSet stores a %d-byte blinded key, the tables say %d", code, len(els.BlindedPublicKey()), pub)
	}
	for _, n := range keyLengths {
		if n == pub {
			continue
		}
		if _, err := newELS(code, n, sig); err == nil {
			return fmt.Errorf("signing type %d: known with a %d-byte public key, yet NewEncryptedLeaseSet accepts a blinded key of %d bytes", code, pub, n)
		}
	}
	return nil
}

var probeDest = func() *model.Ident {
	id, _ := gen.IdentSpec{SigType: 7, EncType: 4, KeySeed: 3, PadSeed: 4}.Build()
	return &id
}()

func checkEncCode(code int, r *ev.Rec) error {
	var ans []answer
	if info, ok := key_certificate.CryptoKeySizes[code]; ok {
		ans = append(ans, answer{"key_certificate.CryptoKeySizes", true, info.CryptoPublicKeySize, -1})
	} else {
		ans = append(ans, answer{"key_certificate.CryptoKeySizes", false, -1, -1})
	}
	if n, ok := key_certificate.CryptoPublicKeySizes[uint16(code)]; ok {
		ans = append(ans, answer{"key_certificate.CryptoPublicKeySizes", true, n, -1})
	} else {
		ans = append(ans, answer{"key_certificate.CryptoPublicKeySizes", false, -1, -1})
	}
	n, err := key_certificate.GetCryptoKeySize(code)
	ans = append(ans, answer{"key_certificate.GetCryptoKeySize", err == nil, orNeg(err == nil, n), -1})
	ks, err := key_certificate.GetKeySizes(7, code)
	ans = append(ans, answer{"key_certificate.GetKeySizes", err == nil, orNeg(err == nil, ks.CryptoPublicKeySize), -1})
	kc := key_certificate.KeyCertificate{CpkType: data.Integer{byte(code >> 8), byte(code)}, SpkType: data.Integer{0, 7}}
	cs := kc.CryptoSize()
	ans = append(ans, answer{"KeyCertificate.CryptoSize", cs != 0, orNeg(cs != 0, cs), -1})
	kcu := key_certificate.KeyCertificate{CpkType: data.Integer{byte(code >> 8), byte(code)}, SpkType: data.Integer{0x27, 0x0f}}
	csu := kcu.CryptoSize()
	ans = append(ans, answer{"KeyCertificate.CryptoSize (signing code 9999 beside it)", csu != 0, orNeg(csu != 0, csu), -1})
	cps, err := kc.CryptoPublicKeySize()
	ans = append(ans, answer{"KeyCertificate.CryptoPublicKeySize", err == nil, orNeg(err == nil, cps), -1})
	want, specKnown := model.EncPubLen[code]
	pub := -1
	for _, a := range ans {
		if specKnown && (!a.known || a.pub != want) {
			return fmt.Errorf("crypto type %d: the specification says %d bytes; %s says known=%v length=%d", code, want, a.who, a.known, a.pub)
		}
		if a.known != ans[0].known {
			return fmt.Errorf("crypto type %d: %s says known=%v, %s says known=%v", code, ans[0].who, ans[0].known, a.who, a.known)
		}
		if a.pub >= 0 {
			if pub >= 0 && pub != a.pub {
				return fmt.Errorf("crypto type %d: lookups disagree on the key length (%d vs %d at %s)", code, pub, a.pub, a.who)
			}
			pub = a.pub
		}
	}
	// key certificates for this crypto code through the constructors and the parser
	for _, route := range []struct {
		name string
		mk   func() (*key_certificate.KeyCertificate, error)
	}{
		{"NewKeyCertificateWithTypes(7, code)", func() (*key_certificate.KeyCertificate, error) {
			return key_certificate.NewKeyCertificateWithTypes(7, code)
		}},
		{"NewKeyCertificate(05 0004 0007 <code>)", func() (*key_certificate.KeyCertificate, error) {
			kc, _, err := key_certificate.NewKeyCertificate([]byte{5, 0, 4, 0, 7, byte(code >> 8), byte(code)})
			return kc, err
		}},
		{"CertificateBuilder.WithKeyTypes(7, code) -> KeyCertificateFromCertificate", func() (*key_certificate.KeyCertificate, error) {
			b, err := certificate.NewCertificateBuilder().WithKeyTypes(7, code)
			if err != nil {
				return nil, err
			}
			c, err := b.Build()
			if err != nil {
				return nil, err
			}
			return key_certificate.KeyCertificateFromCertificate(c)
		}},
	} {
		kc, err := route.mk()
		if err != nil || kc == nil {
			continue
		}
		if got := kc.PublicKeyType(); got != code {
			return fmt.Errorf("crypto type %d: the key certificate from %s declares crypto type %d", code, route.name, got)
		}
		if want := []byte{5, 0, 4, 0, 7, byte(code >> 8), byte(code)}; !bytes.Equal(kc.Bytes(), want) {
			return fmt.Errorf("crypto type %d: the key certificate from %s serialises to % x, want % x", code, route.name, kc.Bytes(), want)
		}
		if cs := kc.CryptoSize(); (cs != 0) != ans[0].known || (ans[0].known && cs != pub) {
			return fmt.Errorf("crypto type %d: the key certificate from %s reports a %d-byte key, the tables say known=%v %d", code, route.name, cs, ans[0].known, pub)
		}
	}
	// leaseset key validation must use the same table
	known := ans[0].known
	right := 32
	if known {
		right = pub
	}
	d, err := libkeys.ParsedDest(*probeDest)
	if err != nil {
		return fmt.Errorf("probe destination: %v", err)
	}
	// the probed key alone, after a well-formed X25519 key, after a well-formed ElGamal
	// key, and before a well-formed X25519 key: the answer must not depend on the position
	x25519Key := lease_set2.EncryptionKey{KeyType: 4, KeyLen: 32, KeyData: model.Fill(32, 3)}
	elgKey := lease_set2.EncryptionKey{KeyType: 0, KeyLen: 256, KeyData: model.ElgPub(5)}
	layouts := []struct {
		name          string
		before, after []lease_set2.EncryptionKey
	}{
		{"alone", nil, nil},
		{"second, after an X25519 key", []lease_set2.EncryptionKey{x25519Key}, nil},
		{"second, after an ElGamal key", []lease_set2.EncryptionKey{elgKey}, nil},
		{"first, before an X25519 key", nil, []lease_set2.EncryptionKey{x25519Key}},
	}
	mk := func(l, layout int) error {
		l2, _ := lease.NewLease2(data.Hash{1}, 1, lease2Time)
		keys := append([]lease_set2.EncryptionKey{}, layouts[layout].before...)
		keys = append(keys, lease_set2.EncryptionKey{KeyType: uint16(code), KeyLen: uint16(l), KeyData: model.Fill(l, 7)})
		keys = append(keys, layouts[layout].after...)
		ls, err := lease_set2.NewLeaseSet2(d, 1000, 600, 0, nil, data.Mapping{}, keys, []lease.Lease2{*l2}, nil)
		if err != nil {
			return err
		}
		return ls.Validate()
	}
	for li, lay := range layouts {
		if li > 0 && code > 300 && code < 65270 && code%64 != 0 {
			continue // positions other than "alone": all assigned and boundary codes, every 64th of the rest
		}
		if err := mk(right, li); err != nil {
			return fmt.Errorf("crypto type %d (%s): a leaseset key of the table's length %d is rejected: %v", code, lay.name, right, err)
		}
		errWrong := mk(right+1, li)
		if known && errWrong == nil {
			return fmt.Errorf("crypto type %d (%s): known with length %d, yet leaseset validation accepts %d bytes", code, lay.name, right, right+1)
		}
		if !known && errWrong != nil {
			return fmt.Errorf("crypto type %d (%s): unknown to the tables, yet leaseset validation enforces a length: %v", code, lay.name, errWrong)
		}
	}
	if known || specKnown {
		r.NonTrivialStr(CodeCase{"enc", code}, "enc", fmt.Sprint(code))
	}
	return nil
}

var lease2Time = func() (t0 timeT) { return timeUnix(2000000000) }()

func TestEnumCodes(t *testing.T) {
	ev.Enumerate(t, "all-65536-signing-and-crypto-codes", true, func(shard, shards int, r *ev.Rec) error {
		for code := 0; code < 65536; code++ {
			if code%shards != shard {
				continue
			}
			r.EvalN(2)
			if err := checkSigCode(code, r); err != nil {
				r.Violation("codes", CodeCase{"sig", code}, err.Error())
				return err
			}
			if err := checkEncCode(code, r); err != nil {
				r.Violation("codes", CodeCase{"enc", code}, err.Error())
				return err
			}
		}
		return nil
	})
}

var propCodes = &ev.Prop[CodeCase]{Sub: "codes", Quick: 1, Thorough: 1,
	Gen: func(t *rapid.T) CodeCase {
		return CodeCase{Kind: rapid.SampledFrom([]string{"sig", "enc"}).Draw(t, "kind"), Code: rapid.IntRange(0, 65535).Draw(t, "code")}
	},
	Check: func(c CodeCase, r *ev.Rec) error {
		if c.Kind == "sig" {
			return checkSigCode(c.Code, r)
		}
		return checkEncCode(c.Code, r)
	}}

// ---------------------------------------------------------------------------
// part 2: layout of the 384-byte block

type LayoutCase struct {
	Ident gen.IdentSpec `json:"ident"`
}

func checkLayout(c LayoutCase, r *ev.Rec) error {
	id, _ := c.Ident.Build()
	enc := id.Encode()
	cs, ss := len(id.Enc), len(id.Sig)
	r.Class(fmt.Sprintf("pair:sig%d/enc%d", id.SigType, id.EncType))
	verify := func(path string, k *keys_and_cert.KeysAndCert) error {
		pk, err := k.PublicKey()
		if err != nil {
			return fmt.Errorf("%s: PublicKey(): %v", path, err)
		}
		sk, err := k.SigningPublicKey()
		if err != nil {
			return fmt.Errorf("%s: SigningPublicKey(): %v", path, err)
		}
		if !bytes.Equal(pk.Bytes(), id.Enc) {
			return fmt.Errorf("%s: encryption key is not bytes [0,%d) of the block", path, cs)
		}
		if !bytes.Equal(sk.Bytes(), id.Sig) {
			return fmt.Errorf("%s: signing key is not bytes [%d,384) of the block", path, 384-ss)
		}
		if !bytes.Equal(k.Padding, id.Pad) && !(len(k.Padding) == 0 && len(id.Pad) == 0) {
			return fmt.Errorf("%s: padding (%d bytes) is not exactly the %d bytes between the keys", path, len(k.Padding), len(id.Pad))
		}
		if k.KeyCertificate.CryptoSize() != pk.Len() || pk.Len() != cs {
			return fmt.Errorf("%s: declared crypto size %d, key length %d, want %d", path, k.KeyCertificate.CryptoSize(), pk.Len(), cs)
		}
		if k.KeyCertificate.SigningPublicKeySize() != sk.Len() || sk.Len() != ss {
			return fmt.Errorf("%s: declared signing key size %d, key length %d, want %d", path, k.KeyCertificate.SigningPublicKeySize(), sk.Len(), ss)
		}
		out, err := k.Bytes()
		if err != nil {
			return fmt.Errorf("%s: Bytes(): %v", path, err)
		}
		if !bytes.Equal(out, enc) {
			return fmt.Errorf("%s: Bytes() differs from the specification layout (first difference in block: %v)", path, firstDiff(out, enc))
		}
		if !bytes.Equal(out[:cs], id.Enc) || !bytes.Equal(out[384-ss:384], id.Sig) || !bytes.Equal(out[cs:384-ss], id.Pad) {
			return fmt.Errorf("%s: serialised block has keys or padding at the wrong offsets", path)
		}
		return nil
	}
	// parser path
	k, rem, err := keys_and_cert.ReadKeysAndCert(append(append([]byte{}, enc...), 0xAA, 0xBB))
	if err != nil {
		return fmt.Errorf("ReadKeysAndCert rejected a well-formed identity (sig %d, enc %d): %v", id.SigType, id.EncType, err)
	}
	if len(rem) != 2 {
		return fmt.Errorf("ReadKeysAndCert left %d bytes, want 2", len(rem))
	}
	if err := verify("parser", k); err != nil {
		return err
	}
	// key-type-specific readers: whatever they accept obeys the same layout, with the
	// key lengths the certificate declares; their own pair is accepted
	for _, fr := range []struct {
		name   string
		f      func([]byte) (*keys_and_cert.KeysAndCert, []byte, error)
		st, et int
	}{
		{"ReadKeysAndCertElgAndEd25519", keys_and_cert.ReadKeysAndCertElgAndEd25519, 7, 0},
		{"ReadKeysAndCertX25519AndEd25519", keys_and_cert.ReadKeysAndCertX25519AndEd25519, 7, 4},
	} {
		fk, frem, ferr := fr.f(append(append([]byte{}, enc...), 0xAA, 0xBB))
		own := id.Cert.Type == 5 && id.SigType == fr.st && id.EncType == fr.et
		if ferr != nil {
			if own {
				return fmt.Errorf("%s rejected an identity of its own key types: %v", fr.name, ferr)
			}
			r.Class("fixed-reader:rejected")
			continue
		}
		if fk == nil || fk.KeyCertificate == nil {
			return fmt.Errorf("%s returned neither a value nor an error", fr.name)
		}
		if len(frem) != 2 {
			return fmt.Errorf("%s left %d bytes, want 2", fr.name, len(frem))
		}
		if err := verify(fr.name, fk); err != nil {
			return err
		}
		if own {
			r.Class("fixed-reader:own-pair")
		} else {
			r.Class("fixed-reader:accepted-other-pair")
		}
	}
	// the conversion helpers: handed the whole 128-byte signing-key field of the block, they
	// return the key that occupies its end (for key types that fit the field)
	if id.Cert.Type == 5 && ss <= 128 && id.SigType != 8 {
		field := enc[256:384]
		if spk, cerr := k.KeyCertificate.ConstructSigningPublicKey(append([]byte{}, field...)); cerr == nil && spk != nil {
			if !bytes.Equal(spk.Bytes(), id.Sig) {
				return fmt.Errorf("KeyCertificate.ConstructSigningPublicKey(128-byte field) for signing type %d returns % x..., the key at the end of the field is % x...", id.SigType, spk.Bytes()[:8], id.Sig[:8])
			}
			r.Class("construct-from-padded-field")
		}
		if spk, cerr := key_certificate.ConstructSigningPublicKeyByType(append([]byte{}, field...), id.SigType); cerr == nil && spk != nil && !bytes.Equal(spk.Bytes(), id.Sig) {
			return fmt.Errorf("ConstructSigningPublicKeyByType(128-byte field, %d) does not return the key at the end of the field", id.SigType)
		}
	}
	// the destination and router-identity readers: every permitted pair is accepted and lays
	// its keys out the same way
	if st, et := id.SigType, id.EncType; st != 8 && et != 5 && et != 6 && et != 7 {
		d, drem, derr := destination.ReadDestination(append(append([]byte{}, enc...), 0xAA, 0xBB))
		if derr != nil || len(drem) != 2 || d.KeysAndCert == nil {
			return fmt.Errorf("ReadDestination rejected a well-formed identity (sig %d, enc %d): %v (remainder %d)", st, et, derr, len(drem))
		}
		if err := verify("ReadDestination", d.KeysAndCert); err != nil {
			return err
		}
		if st != 11 {
			ri, rrem, rerr := router_identity.ReadRouterIdentity(append(append([]byte{}, enc...), 0xAA, 0xBB))
			if rerr != nil || len(rrem) != 2 || ri == nil || ri.KeysAndCert == nil {
				return fmt.Errorf("ReadRouterIdentity rejected a well-formed identity (sig %d, enc %d): %v (remainder %d)", st, et, rerr, len(rrem))
			}
			if err := verify("ReadRouterIdentity", ri.KeysAndCert); err != nil {
				return err
			}
		}
		r.Class("wrapper-readers")
	}
	// a value whose exported key field was exchanged for a key of another length: the
	// accessors return keys of the declared length or an error, never the foreign key
	if id.Cert.Type == 5 {
		foreignEnc := map[int]int{0: 4, 4: 0, 5: 0, 6: 0, 7: 0}[id.EncType]
		if fk, ferr := libkeys.PubKey(foreignEnc, map[int][]byte{0: model.ElgPub(3), 4: model.Fill(32, 3)}[foreignEnc]); ferr == nil && fk.Len() != cs {
			mixed := *k
			mixed.ReceivingPublic = fk
			if pk, perr := mixed.PublicKey(); perr == nil && pk != nil && pk.Len() != mixed.KeyCertificate.CryptoSize() {
				return fmt.Errorf("KeysAndCert.PublicKey() returns a %d-byte key without error although the certificate declares %d bytes (field exchanged by the caller)", pk.Len(), mixed.KeyCertificate.CryptoSize())
			}
		}
		foreignSig := map[int]int{0: 7, 1: 7, 2: 7, 7: 0, 8: 0, 11: 0}[id.SigType]
		if fs, ferr := libkeys.SigPub(foreignSig, model.NewSignKey(foreignSig, 9).Pub); ferr == nil && fs.Len() != ss {
			mixed := *k
			mixed.SigningPublic = fs
			if sk, serr := mixed.SigningPublicKey(); serr == nil && sk != nil && sk.Len() != mixed.KeyCertificate.SigningPublicKeySize() {
				return fmt.Errorf("KeysAndCert.SigningPublicKey() returns a %d-byte key without error although the certificate declares %d bytes (field exchanged by the caller)", sk.Len(), mixed.KeyCertificate.SigningPublicKeySize())
			}
		}
		r.Class("exchanged-key-field")
	}
	// constructor path (KEY certificates only)
	if id.Cert.Type == 5 {
		k2, err := libkeys.KAC(id)
		if err != nil {
			return fmt.Errorf("NewKeysAndCert rejected well-formed arguments (sig %d, enc %d): %v", id.SigType, id.EncType, err)
		}
		if err := verify("constructor", k2); err != nil {
			return err
		}
		r.Class("constructor-path")
	}
	if len(id.Pad) > 0 {
		r.NonTrivial(c, []byte("layout"), enc)
	}
	return nil
}

func firstDiff(a, b []byte) int {
	for i := 0; i < len(a) && i < len(b); i++ {
		if a[i] != b[i] {
			return i
		}
	}
	return min(len(a), len(b))
}

var propLayout = &ev.Prop[LayoutCase]{Sub: "layout", Quick: 120000, Thorough: 1000000,
	Gen: func(t *rapid.T) LayoutCase {
		return LayoutCase{Ident: gen.Ident(t, "id", []int{0, 1, 2, 7, 7, 8, 11}, []int{0, 4, 5, 6, 7})}
	}, Check: checkLayout}

func TestRegress(t *testing.T)    { propLayout.Regress(t); propCodes.Regress(t) }
func TestReplay(t *testing.T)     { _ = propLayout.Replay(t) || propCodes.Replay(t) }
func TestPropLayout(t *testing.T) { propLayout.Run(t) }

// every supported pair at least once per run, regardless of the generator
func TestEnumPairs(t *testing.T) {
	ev.Enumerate(t, "all-supported-pairs", false, func(_, _ int, r *ev.Rec) error {
		for _, st := range []int{0, 1, 2, 7, 8, 11} {
			for _, et := range []int{0, 4, 5, 6, 7} {
				for mode := 0; mode < 4; mode++ {
					c := LayoutCase{Ident: gen.IdentSpec{SigType: st, EncType: et, KeySeed: uint64(st*10 + et + 1), PadSeed: uint64(mode) + 77, PadMode: mode, Extra: []string{"", "aabbcc"}[mode%2]}}
					if err := propLayout.One(c); err != nil {
						return err
					}
				}
			}
		}
		return propLayout.One(LayoutCase{Ident: gen.IdentSpec{NullCert: true, KeySeed: 5, PadSeed: 6}})
	})
}
