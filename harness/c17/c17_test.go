// Package c17 decides property C17: router address host/port accessors are
// consistent and never accept a hostname.
package c17

import (
	"bytes"
	"fmt"
	"net"
	"net/netip"
	"strings"
	"testing"
	"time"

	"github.com/go-i2p/common/data"
	"github.com/go-i2p/common/router_address"
	"pgregory.net/rapid"

	"verif/internal/ev"
	"verif/internal/model"
)

const rule = "cases: option maps whose host is drawn from a grammar {IPv4 literal, IPv6 literal in every compression form, embedded IPv4, v4-mapped, with zone, with port, bracketed, leading zeros, surrounding whitespace, hostname, empty, 255 bytes, arbitrary bytes}, port from {canonical decimal, leading zeros, +/- sign, spaces, 0, 65535, 65536, 2^63, 2^64, hex, empty}, caps ending / not ending in 6, keys that are prefixes or extensions of the well-known keys (hos, host1, s1, ii, Host), s / i values of 31/32/33 and 15/16/17 raw bytes and their I2P-base64 text forms (padded, unpadded, alphabet strings of neighbouring lengths); each map through NewRouterAddress, through model-encode -> ReadRouterAddress, and through an encoding whose pairs are not in key order (reversed, rotated). For half of the constructed addresses the options are then replaced through the exported field and every accessor is checked again against the options in effect. Oracle: own IP-literal recogniser (cross-checked with net/netip; a disagreement between the two oracles makes the case inconclusive and is counted) - Host() succeeds <=> literal and returns that address; HasValidHost <=> Host() ok; IPVersion = family when the host is valid; Port() succeeds <=> optional sign + decimal digits with value 1..65535 and returns the canonical decimal; HasValidPort <=> Port() ok; GetOption(k) = lookup of exactly k, and so do the named lookups (HostString .. ProtocolVersionString, Introducer{Hash,Expiration,Tag}String(0..2)) for their own keys, with any subset of ih / iexp / itag 0..3 present one case in four; StaticKey / InitializationVector ok <=> 32 / 16 bytes. Non-trivial: host or port option present; distinct by (host, port, caps, path)."

func TestMain(m *testing.M) { ev.Main(m, "C17", rule) }

type Case struct {
	Opts [][2]string `json:"opts_hex"`      // unique keys
	Rot  int         `json:"rot,omitempty"` // rotation of the reversed wire order
}

// ---------------------------------------------------------------------------
// own IP-literal recogniser

func parseV4(s string) ([4]byte, bool) {
	var out [4]byte
	parts := strings.Split(s, ".")
	if len(parts) != 4 {
		return out, false
	}
	for i, p := range parts {
		if len(p) == 0 || len(p) > 3 {
			return out, false
		}
		if len(p) > 1 && p[0] == '0' {
			return out, false // no leading zeros
		}
		n := 0
		for _, ch := range []byte(p) {
			if ch < '0' || ch > '9' {
				return out, false
			}
			n = n*10 + int(ch-'0')
		}
		if n > 255 {
			return out, false
		}
		out[i] = byte(n)
	}
	return out, true
}

func parseV6(s string) ([16]byte, bool) {
	var out [16]byte
	if strings.Contains(s, "%") || len(s) < 2 {
		return out, false
	}
	var head, tail []uint16
	var v4 *[4]byte
	dbl := strings.Index(s, "::")
	if dbl >= 0 && strings.Contains(s[dbl+2:], "::") {
		return out, false
	}
	parseGroups := func(x string, last bool) ([]uint16, bool) {
		if x == "" {
			return nil, true
		}
		var gs []uint16
		parts := strings.Split(x, ":")
		for i, p := range parts {
			if last && i == len(parts)-1 && strings.Contains(p, ".") {
				a, ok := parseV4(p)
				if !ok {
					return nil, false
				}
				v4 = &a
				continue
			}
			if len(p) == 0 || len(p) > 4 {
				return nil, false
			}
			var n uint16
			for _, ch := range []byte(p) {
				var d byte
				switch {
				case ch >= '0' && ch <= '9':
					d = ch - '0'
				case ch >= 'a' && ch <= 'f':
					d = ch - 'a' + 10
				case ch >= 'A' && ch <= 'F':
					d = ch - 'A' + 10
				default:
					return nil, false
				}
				n = n<<4 | uint16(d)
			}
			gs = append(gs, n)
		}
		return gs, true
	}
	var ok bool
	if dbl >= 0 {
		if head, ok = parseGroups(s[:dbl], false); !ok {
			return out, false
		}
		if tail, ok = parseGroups(s[dbl+2:], true); !ok {
			return out, false
		}
	} else {
		if head, ok = parseGroups(s, true); !ok {
			return out, false
		}
	}
	n := len(head) + len(tail)
	if v4 != nil {
		n += 2
	}
	if dbl >= 0 {
		if n > 7 {
			return out, false
		}
	} else if n != 8 {
		return out, false
	}
	i := 0
	for _, g := range head {
		out[i], out[i+1] = byte(g>>8), byte(g)
		i += 2
	}
	end := 16
	if v4 != nil {
		copy(out[12:], v4[:])
		end = 12
	}
	j := end - 2*len(tail)
	if dbl < 0 {
		j = i
	}
	for _, g := range tail {
		out[j], out[j+1] = byte(g>>8), byte(g)
		j += 2
	}
	return out, true
}

// ipLiteral: (address bytes 4 or 16, family "4"/"6", ok)
func ipLiteral(s string) ([]byte, string, bool) {
	if a, ok := parseV4(s); ok {
		return a[:], "4", true
	}
	if a, ok := parseV6(s); ok {
		// net.IP.To4() treats v4-mapped addresses as IPv4
		if bytes.Equal(a[:10], make([]byte, 10)) && a[10] == 0xff && a[11] == 0xff {
			return a[12:], "4", true
		}
		return a[:], "6", true
	}
	return nil, "", false
}

func portOracle(s string) (string, bool) {
	if s == "" {
		return "", false
	}
	d := s
	neg := false
	if d[0] == '+' || d[0] == '-' {
		neg = d[0] == '-'
		d = d[1:]
	}
	if d == "" {
		return "", false
	}
	n := 0
	for _, ch := range []byte(d) {
		if ch < '0' || ch > '9' {
			return "", false
		}
		if n < 1<<40 {
			n = n*10 + int(ch-'0')
		}
	}
	if neg || n < 1 || n > 65535 {
		return "", false
	}
	return fmt.Sprint(n), true
}

// ---------------------------------------------------------------------------

func lookup(opts [][2]string, key string) (string, bool) {
	for _, kv := range opts {
		if string(ev.UnH(kv[0])) == key {
			return string(ev.UnH(kv[1])), true
		}
	}
	return "", false
}

func checkAddr(path string, a router_address.RouterAddress, c Case, r *ev.Rec) error {
	r.Eval() // one oracle evaluation per path (constructor, parser)
	host, hasHost := lookup(c.Opts, "host")
	port, hasPort := lookup(c.Opts, "port")
	caps, hasCaps := lookup(c.Opts, "caps")
	// --- host
	wantIP, fam, lit := ipLiteral(host)
	if np, err := netip.ParseAddr(host); (err == nil && np.Zone() == "") != (hasHost && lit) && hasHost {
		r.Class("oracles-disagree-on-host")
		return nil // inconclusive case: the two oracles disagree
	}
	addr, herr := a.Host()
	wantHostOK := hasHost && lit
	if (herr == nil) != wantHostOK {
		return fmt.Errorf("%s: Host() error=%v for host option %q (present %v, IP literal %v)", path, herr, host, hasHost, lit)
	}
	if herr == nil {
		ipa, ok := addr.(*net.IPAddr)
		if !ok || ipa.Zone != "" {
			return fmt.Errorf("%s: Host() returned %T %v for %q", path, addr, addr, host)
		}
		got := ipa.IP.To4()
		if got == nil {
			got = ipa.IP.To16()
		}
		if !bytes.Equal(got, wantIP) {
			return fmt.Errorf("%s: Host() = %v for literal %q (want % x)", path, ipa.IP, host, wantIP)
		}
	}
	if a.HasValidHost() != wantHostOK {
		return fmt.Errorf("%s: HasValidHost() = %v but Host() ok = %v for %q", path, a.HasValidHost(), wantHostOK, host)
	}
	ver := a.IPVersion()
	if wantHostOK {
		if ver != fam {
			return fmt.Errorf("%s: IPVersion() = %q for host %q of family %s", path, ver, host, fam)
		}
	} else {
		want := ""
		if hasCaps {
			want = "4"
			if strings.HasSuffix(caps, "6") {
				want = "6"
			}
		}
		if ver != want {
			return fmt.Errorf("%s: IPVersion() = %q without a valid host (caps %q present %v), want %q", path, ver, caps, hasCaps, want)
		}
	}
	// --- port
	wantPort, wantPortOK := portOracle(port)
	wantPortOK = wantPortOK && hasPort
	p, perr := a.Port()
	if (perr == nil) != wantPortOK {
		return fmt.Errorf("%s: Port() error=%v for port option %q (present %v)", path, perr, port, hasPort)
	}
	if perr == nil && p != wantPort {
		return fmt.Errorf("%s: Port() = %q for %q, canonical form is %q", path, p, port, wantPort)
	}
	if a.HasValidPort() != wantPortOK {
		return fmt.Errorf("%s: HasValidPort() = %v but Port() ok = %v for %q", path, a.HasValidPort(), wantPortOK, port)
	}
	// --- option lookup by exact key
	probe := []string{"host", "port", "caps", "s", "i", "v", "hos", "host1", "s1", "ii", "Host", "h", "", "ih0", "iexp1", "itag2"}
	for _, kv := range c.Opts {
		probe = append(probe, string(ev.UnH(kv[0])))
	}
	for _, k := range probe {
		if len(k) > 255 {
			continue
		}
		ks, _ := data.ToI2PString(k)
		want, present := lookup(c.Opts, k)
		got := a.GetOption(ks)
		if present != (got != nil) || a.HasOption(ks) != present || a.CheckOption(k) != present {
			return fmt.Errorf("%s: option %q present=%v but GetOption=%v HasOption=%v CheckOption=%v", path, k, present, got != nil, a.HasOption(ks), a.CheckOption(k))
		}
		if present {
			if d, err := got.Data(); err != nil || d != want {
				return fmt.Errorf("%s: GetOption(%q) = %q (%v), stored value is %q", path, k, d, err, want)
			}
		}
	}
	// --- the named lookups: each returns what is stored under exactly its own key (and nothing
	// when that key is absent), whatever is stored under neighbouring keys
	named := []struct {
		key string
		got data.I2PString
	}{
		{"host", a.HostString()}, {"port", a.PortString()}, {"caps", a.CapsString()},
		{"s", a.StaticKeyString()}, {"i", a.InitializationVectorString()}, {"v", a.ProtocolVersionString()},
	}
	for n := 0; n <= 2; n++ {
		named = append(named, struct {
			key string
			got data.I2PString
		}{fmt.Sprintf("ih%d", n), a.IntroducerHashString(n)}, struct {
			key string
			got data.I2PString
		}{fmt.Sprintf("iexp%d", n), a.IntroducerExpirationString(n)}, struct {
			key string
			got data.I2PString
		}{fmt.Sprintf("itag%d", n), a.IntroducerTagString(n)})
	}
	for _, nl := range named {
		want, present := lookup(c.Opts, nl.key)
		if present != (nl.got != nil) {
			return fmt.Errorf("%s: option %q present=%v but its named accessor returns non-nil=%v", path, nl.key, present, nl.got != nil)
		}
		if present {
			if d, err := nl.got.Data(); err != nil || d != want {
				return fmt.Errorf("%s: the named accessor of option %q returns %q (%v), stored value is %q", path, nl.key, d, err, want)
			}
			if nl.key[0] == 'i' && len(nl.key) > 1 {
				r.Class("introducer-option-present")
			}
		}
	}
	// --- static key and IV
	sv, hasS := lookup(c.Opts, "s")
	sk, serr := a.StaticKey()
	if (serr == nil) != (hasS && len(sv) == 32) {
		return fmt.Errorf("%s: StaticKey() error=%v for an s option of %d bytes (present %v)", path, serr, len(sv), hasS)
	}
	if serr == nil && string(sk[:]) != sv {
		return fmt.Errorf("%s: StaticKey() returns different bytes", path)
	}
	iv, hasI := lookup(c.Opts, "i")
	ivv, ierr := a.InitializationVector()
	if (ierr == nil) != (hasI && len(iv) == 16) {
		return fmt.Errorf("%s: InitializationVector() error=%v for an i option of %d bytes (present %v)", path, ierr, len(iv), hasI)
	}
	if ierr == nil && string(ivv[:]) != iv {
		return fmt.Errorf("%s: InitializationVector() returns different bytes", path)
	}
	if hasHost || hasPort {
		r.NonTrivialStr(c, path, host, port, caps)
	}
	if wantHostOK {
		r.Class("host:literal-v" + fam)
	} else if hasHost {
		r.Class("host:not-a-literal")
	}
	if wantPortOK {
		r.Class("port:valid")
	} else if hasPort {
		r.Class("port:invalid")
	}
	return nil
}

func check(c Case, r *ev.Rec) error {
	m := map[string]string{}
	var pairs []model.Pair
	for _, kv := range c.Opts {
		m[string(ev.UnH(kv[0]))] = string(ev.UnH(kv[1]))
	}
	for _, p := range model.PairsFromMap(m) {
		pairs = append(pairs, p)
	}
	// constructor path
	a1, err := router_address.NewRouterAddress(5, time.Unix(0, 0), "NTCP2", m)
	if err != nil {
		return fmt.Errorf("NewRouterAddress rejected the options: %v", err)
	}
	if err := checkAddr("constructor", *a1, c, r); err != nil {
		return err
	}
	// history: the options of a value that has answered once are replaced through the
	// exported field; every accessor must answer from the options in effect
	if len(c.Opts)%2 == 1 {
		c2 := Case{}
		m2 := map[string]string{}
		for _, kv := range c.Opts {
			k, v := string(ev.UnH(kv[0])), string(ev.UnH(kv[1]))
			switch k {
			case "host":
				if _, _, ok := ipLiteral(v); ok {
					v = "example.i2p"
				} else {
					v = "10.9.8.7"
				}
			case "port":
				if _, ok := portOracle(v); ok {
					v = "0"
				} else {
					v = "4444"
				}
			case "caps":
				v += "6"
			case "s", "i":
				v += "x"
			}
			if len(v) > 255 {
				v = v[:255]
			}
			m2[k] = v
			c2.Opts = append(c2.Opts, [2]string{ev.H([]byte(k)), ev.H([]byte(v))})
		}
		if _, has := m2["host"]; !has {
			m2["host"] = "2001:db8::7"
			c2.Opts = append(c2.Opts, [2]string{ev.H([]byte("host")), ev.H([]byte("2001:db8::7"))})
		}
		mp2, err := data.GoMapToMapping(m2)
		if err == nil {
			a1.TransportOptions = mp2
			if err := checkAddr("after the options of a used value were replaced", *a1, c2, r); err != nil {
				return err
			}
			r.Class("options-replaced-after-use")
		}
	}
	// parser path
	enc := model.RouterAddr{Cost: 5, Style: []byte("NTCP2"), Options: pairs}.Encode()
	a2, rem, err := router_address.ReadRouterAddress(append(enc, 1, 2, 3))
	if err != nil || len(rem) != 3 {
		return fmt.Errorf("ReadRouterAddress rejected a well-formed address: %v (rem %d)", err, len(rem))
	}
	if err := checkAddr("parser", a2, c, r); err != nil {
		return err
	}
	// parser path, options in another wire order (the parser keeps the order it reads;
	// lookups must not depend on it)
	if len(pairs) >= 2 {
		rev := make([]model.Pair, len(pairs))
		for i, p := range pairs {
			rev[len(pairs)-1-i] = p
		}
		if c.Rot > 0 {
			k := c.Rot % len(rev)
			rev = append(append([]model.Pair{}, rev[k:]...), rev[:k]...)
		}
		enc := model.RouterAddr{Cost: 5, Style: []byte("NTCP2"), Options: rev}.Encode()
		a3, rem, err := router_address.ReadRouterAddress(append(enc, 1, 2, 3))
		if err != nil || len(rem) != 3 {
			r.Class("unsorted-wire-order:rejected")
			return nil
		}
		r.Class("unsorted-wire-order:parsed")
		return checkAddr("parser (options not in key order on the wire)", a3, c, r)
	}
	return nil
}

var hosts = []string{
	"1.2.3.4", "0.0.0.0", "255.255.255.255", "256.1.1.1", "1.2.3", "1.2.3.4.5", "01.2.3.4", "1.2.3.04", "1.2.3.4 ", " 1.2.3.4", "1.2.3.4:80", "1.2.3.-4", "1.2.3.4.", ".1.2.3.4", "1..3.4", "0x1.2.3.4", "1.2.3.4\n",
	"::", "::1", "1::", "2001:db8::1", "2001:DB8::1", "2001:db8:0:0:0:0:0:1", "1:2:3:4:5:6:7:8", "1:2:3:4:5:6:7:8:9", "1:2:3:4:5:6:7", "1:2:3:4:5:6:7::", "::2:3:4:5:6:7:8", "1::8::9", ":::", ":", "1:2:3:4:5:6:1.2.3.4", "::ffff:1.2.3.4", "::1.2.3.4", "64:ff9b::1.2.3.4", "1:2:3:4:5:6:7:1.2.3.4",
	"fe80::1%eth0", "fe80::1%", "[::1]", "[::1]:80", "12345::1", "g::1", "::ffff:256.1.1.1", "::ffff:01.2.3.4",
	"example.i2p", "localhost", "a.b", "1.2.3.4.example.com", "", "-", "1", "4294967295", "0x7f000001", "017700000001", "１.２.３.４",
}
var ports = []string{"1", "80", "65535", "0", "65536", "00080", "+80", "-80", "-0", "+0", " 80", "80 ", "8 0", "0x50", "80.0", "1e3", "", "9223372036854775807", "9223372036854775808", "18446744073709551616", "99999999999999999999999", "٨٠", "80\n", "+", "-", "1_000"}

func genCase(t *rapid.T) Case {
	var c Case
	seen := map[string]bool{}
	add := func(k, v string) {
		if seen[k] || len(k) > 255 || len(v) > 255 {
			return
		}
		seen[k] = true
		c.Opts = append(c.Opts, [2]string{ev.H([]byte(k)), ev.H([]byte(v))})
	}
	if rapid.IntRange(0, 9).Draw(t, "hashost") > 0 {
		h := rapid.SampledFrom(hosts).Draw(t, "host")
		switch rapid.IntRange(0, 5).Draw(t, "hk") {
		case 0: // generated IPv4
			h = fmt.Sprintf("%d.%d.%d.%d", rapid.IntRange(0, 260).Draw(t, "a"), rapid.IntRange(0, 255).Draw(t, "b"), rapid.IntRange(0, 255).Draw(t, "c"), rapid.IntRange(0, 255).Draw(t, "d"))
		case 1: // generated IPv6 with random compression
			var g []string
			n := rapid.IntRange(0, 8).Draw(t, "ngroups")
			for i := 0; i < n; i++ {
				g = append(g, fmt.Sprintf("%x", rapid.IntRange(0, 0xffff).Draw(t, "g")))
			}
			h = strings.Join(g, ":")
			if n < 8 {
				p := rapid.IntRange(0, n).Draw(t, "at")
				h = strings.Join(g[:p], ":") + "::" + strings.Join(g[p:], ":")
			}
		case 2: // arbitrary bytes
			h = string(rapid.SliceOfN(rapid.Byte(), 0, 20).Draw(t, "rawhost"))
		case 3:
			h = string(model.Fill(255, 3))
		}
		add("host", h)
	}
	if rapid.IntRange(0, 9).Draw(t, "hasport") > 0 {
		p := rapid.SampledFrom(ports).Draw(t, "port")
		if rapid.IntRange(0, 2).Draw(t, "pk") == 0 {
			p = fmt.Sprint(rapid.IntRange(-5, 70000).Draw(t, "portnum"))
		}
		add("port", p)
	}
	if rapid.Bool().Draw(t, "hascaps") {
		add("caps", rapid.SampledFrom([]string{"4", "6", "46", "64", "B6", "BC", "", "6 "}).Draw(t, "caps"))
	}
	for _, k := range []string{"hos", "host1", "s1", "ii", "Host", "h", "por", "port2", "v", "ih0", "iexp1"} {
		if rapid.IntRange(0, 4).Draw(t, "extra") == 0 {
			add(k, rapid.SampledFrom([]string{"1.2.3.4", "80", "x", ""}).Draw(t, "extraval"))
		}
	}
	// introducer options: any subset of ih / iexp / itag 0..3, each with its own value
	if rapid.IntRange(0, 3).Draw(t, "introducers") == 0 {
		for _, pfx := range []string{"ih", "iexp", "itag"} {
			for n := 0; n <= 3; n++ {
				if rapid.IntRange(0, 2).Draw(t, "hasintro") > 0 {
					add(fmt.Sprintf("%s%d", pfx, n), fmt.Sprintf("%s-value-%d-%d", pfx, n, rapid.IntRange(0, 9).Draw(t, "introval")))
				}
			}
		}
	}
	// s and i: raw bytes of the right and of neighbouring lengths, and the I2P-base64
	// text forms (padded, unpadded, alphabet strings of 22..25 / 43..45 characters)
	textForm := func(label string, raw []int, lens []int) string {
		b := model.Fill(rapid.SampledFrom(raw).Draw(t, label+"raw"), rapid.Uint64Range(1, 1<<16).Draw(t, label+"seed"))
		txt := model.Base64(b)
		switch rapid.IntRange(0, 2).Draw(t, label+"form") {
		case 1:
			txt = strings.TrimRight(txt, "=")
		case 2:
			n := rapid.SampledFrom(lens).Draw(t, label+"len")
			for len(txt) < n {
				txt += txt
			}
			txt = strings.ReplaceAll(txt, "=", "A")[:n]
		}
		return txt
	}
	if rapid.Bool().Draw(t, "hass") {
		if rapid.IntRange(0, 2).Draw(t, "stext") == 0 {
			add("s", textForm("s", []int{31, 32, 33}, []int{32, 43, 44, 45}))
		} else {
			add("s", string(model.Fill(rapid.SampledFrom([]int{31, 32, 33, 0, 44}).Draw(t, "slen"), 7)))
		}
	}
	if rapid.Bool().Draw(t, "hasi") {
		if rapid.IntRange(0, 2).Draw(t, "itext") == 0 {
			add("i", textForm("i", []int{15, 16, 17, 18}, []int{16, 22, 23, 24, 25}))
		} else {
			add("i", string(model.Fill(rapid.SampledFrom([]int{15, 16, 17, 0, 24}).Draw(t, "ilen"), 8)))
		}
	}
	c.Rot = rapid.IntRange(0, 6).Draw(t, "rot")
	return c
}

var prop = &ev.Prop[Case]{Sub: "accessors", Quick: 160000, Thorough: 2000000, Gen: genCase, Check: check}

func TestRegress(t *testing.T) { prop.Regress(t) }
func TestReplay(t *testing.T)  { prop.Replay(t) }
func TestProp(t *testing.T)    { prop.Run(t) }

func TestEnumGrammar(t *testing.T) {
	ev.Enumerate(t, "host-x-port-literal-tables", false, func(_, _ int, r *ev.Rec) error {
		for _, h := range hosts {
			for _, p := range []string{"80", "0", "+80", ""} {
				c := Case{Opts: [][2]string{{ev.H([]byte("host")), ev.H([]byte(h))}, {ev.H([]byte("port")), ev.H([]byte(p))}}}
				if err := prop.One(c); err != nil {
					return err
				}
			}
		}
		for _, p := range ports {
			c := Case{Opts: [][2]string{{ev.H([]byte("host")), ev.H([]byte("1.2.3.4"))}, {ev.H([]byte("port")), ev.H([]byte(p))}, {ev.H([]byte("caps")), ev.H([]byte("B6"))}}}
			if err := prop.One(c); err != nil {
				return err
			}
		}
		return nil
	})
}
