// Package c08 decides property C08: parsed values do not share memory with
// the caller's buffer, and slices handed out by copy-documented accessors can
// be overwritten without affecting the value.
package c08

import (
	"bytes"
	"fmt"
	"reflect"
	"sort"
	"strings"
	"testing"
	"time"

	"pgregory.net/rapid"

	"verif/internal/ev"
	"verif/internal/gen"
	"verif/internal/lib"
	"verif/internal/model"
)

const rule = "(in addition the remainder slice a parser returns is overwritten, and a second value is parsed from a pristine copy and its buffer is inverted before any method is called on it: it must report what the first value reported) cases: an accepted input of each structure the property lists (certificate, key certificate, keys-and-cert incl. both fixed-size readers, destination, router identity, signature, offline signature, lease, Lease2, LeaseSet, EncryptedLeaseSet, LeaseSet2 and MetaLeaseSet with empty options/properties so that only identity, key, lease and signature parts are present) x a generated history of 1..4 steps from {invert the whole input buffer, zero it, overwrite a range, overwrite every byte slice previously returned by an accessor}. The input sits in a buffer with 64 spare bytes of capacity filled with a sentinel. Oracle: an observation = serialisation + a deep, pointer-following dump of the result of every exported argument-free method (two levels into returned library values); every observation after a step equals the first one, and the sentinel region is intact after every library call. Non-trivial: >= 1 overwrite touches the consumed region before an observation; distinct by (entry, input)."

func TestMain(m *testing.M) { ev.Main(m, "C08", rule) }

var entries = []string{
	"certificate.ReadCertificate", "key_certificate.NewKeyCertificate",
	"keys_and_cert.ReadKeysAndCert", "keys_and_cert.ReadKeysAndCertElgAndEd25519", "keys_and_cert.ReadKeysAndCertX25519AndEd25519",
	"destination.ReadDestination", "destination.NewDestinationFromBytes",
	"router_identity.ReadRouterIdentity", "router_identity.NewRouterIdentityFromBytes",
	"signature.ReadSignature", "signature.NewSignature", "signature.NewSignatureFromBytes",
	"offline_signature.ReadOfflineSignature",
	"lease.ReadLease", "lease.NewLeaseFromBytes", "lease.ReadLease2", "lease.NewLease2FromBytes",
	"lease_set.ReadLeaseSet", "lease_set.ReadDestinationFromLeaseSet",
	"lease_set2.ReadLeaseSet2", "meta_leaseset.ReadMetaLeaseSet", "encrypted_leaseset.ReadEncryptedLeaseSet",
}

type Step struct {
	Op  string `json:"op"` // invert | zero | range | returned
	Pos int    `json:"pos"`
	Len int    `json:"len"`
	Val int    `json:"val"`
}

type Case struct {
	Input gen.Input `json:"input"`
	Steps []Step    `json:"steps"`
}

// dump renders a value deterministically, following pointers and interfaces
// and collecting every []byte it meets (so that the harness can scribble on
// them).
type dumper struct {
	sb      strings.Builder
	slices  [][]byte
	depth   int
	collect bool // the method being dumped is documented to return a copy
}

func (d *dumper) val(v reflect.Value) {
	if d.depth > 12 {
		d.sb.WriteString("<deep>")
		return
	}
	d.depth++
	defer func() { d.depth-- }()
	if !v.IsValid() {
		d.sb.WriteString("<invalid>")
		return
	}
	if v.Type().String() == "data.Mapping" {
		// the property excludes the options / properties mappings of LeaseSet2 and MetaLeaseSet
		d.sb.WriteString("<mapping>")
		return
	}
	if v.CanInterface() {
		switch x := v.Interface().(type) {
		case time.Time:
			fmt.Fprintf(&d.sb, "time(%d)", x.UnixNano())
			return
		case error:
			if x == nil {
				d.sb.WriteString("err(nil)")
			} else {
				d.sb.WriteString("err(set)")
			}
			return
		}
	}
	switch v.Kind() {
	case reflect.Ptr, reflect.Interface:
		if v.IsNil() {
			d.sb.WriteString("nil")
			return
		}
		if v.Kind() == reflect.Interface && v.CanInterface() {
			if b, ok := v.Interface().(interface{ Bytes() []byte }); ok {
				bb := b.Bytes()
				fmt.Fprintf(&d.sb, "%T{%x}", v.Interface(), bb)
				return
			}
		}
		d.val(v.Elem())
	case reflect.Slice:
		if v.Type().Elem().Kind() == reflect.Uint8 {
			b := v.Bytes()
			if d.collect && v.CanInterface() && len(b) > 0 {
				d.slices = append(d.slices, b)
			}
			fmt.Fprintf(&d.sb, "[%x]", b)
			return
		}
		d.sb.WriteString("[")
		for i := 0; i < v.Len(); i++ {
			d.val(v.Index(i))
			d.sb.WriteString(",")
		}
		d.sb.WriteString("]")
	case reflect.Array:
		if v.Type().Elem().Kind() == reflect.Uint8 {
			b := make([]byte, v.Len())
			for i := range b {
				b[i] = byte(v.Index(i).Uint())
			}
			fmt.Fprintf(&d.sb, "<%x>", b)
			return
		}
		for i := 0; i < v.Len(); i++ {
			d.val(v.Index(i))
		}
	case reflect.Struct:
		d.sb.WriteString(v.Type().String() + "{")
		for i := 0; i < v.NumField(); i++ {
			d.sb.WriteString(v.Type().Field(i).Name + ":")
			d.val(v.Field(i))
			d.sb.WriteString(";")
		}
		d.sb.WriteString("}")
	case reflect.String:
		fmt.Fprintf(&d.sb, "%q", v.String())
	case reflect.Bool:
		fmt.Fprintf(&d.sb, "%v", v.Bool())
	case reflect.Int, reflect.Int8, reflect.Int16, reflect.Int32, reflect.Int64:
		fmt.Fprintf(&d.sb, "%d", v.Int())
	case reflect.Uint, reflect.Uint8, reflect.Uint16, reflect.Uint32, reflect.Uint64, reflect.Uintptr:
		fmt.Fprintf(&d.sb, "%d", v.Uint())
	case reflect.Map:
		keys := v.MapKeys()
		sort.Slice(keys, func(i, j int) bool { return fmt.Sprint(keys[i]) < fmt.Sprint(keys[j]) })
		for _, k := range keys {
			d.val(k)
			d.sb.WriteString("=>")
			d.val(v.MapIndex(k))
		}
	default:
		fmt.Fprintf(&d.sb, "<%s>", v.Kind())
	}
}

// timeDependent accessors compare a stored date with time.Now(); their answer
// is not a function of the value alone.
var skip = map[string]bool{"IsExpired": true, "Validate": true, "IsValid": true, "String": true,
	"Options": true, "Properties": true}

type observation struct {
	text   string
	slices [][]byte // byte slices handed out by accessors (for the "returned" step)
}

func observe(e *lib.Entry, res lib.Result) (observation, []string) {
	d := &dumper{}
	fmt.Fprintf(&d.sb, "serial[%x]err(%v);", res.Serial, res.SerErr != nil)
	sw := &lib.Sweep{MaxDepth: 2, SkipNames: skip, OnResult: func(path string, out []reflect.Value) {
		d.sb.WriteString(path + "=")
		d.collect = copyDocumented(e.Name, path)
		for _, o := range out {
			d.val(o)
			d.sb.WriteString("|")
		}
		d.collect = false
		d.sb.WriteString("\n")
	}}
	sw.Run(e.Name, res.Value)
	return observation{text: d.sb.String(), slices: d.slices}, sw.Panics
}

func firstDiffLine(a, b string) string {
	la, lb := strings.Split(a, "\n"), strings.Split(b, "\n")
	for i := 0; i < len(la) && i < len(lb); i++ {
		if la[i] != lb[i] {
			x, y := la[i], lb[i]
			if len(x) > 260 {
				x = x[:260] + "…"
			}
			if len(y) > 260 {
				y = y[:260] + "…"
			}
			return fmt.Sprintf("\n before: %s\n after:  %s", x, y)
		}
	}
	return fmt.Sprintf(" (lengths %d vs %d)", len(a), len(b))
}

const sentinel = 0xEE

func check(c Case, r *ev.Rec) error {
	e := lib.ByName(c.Input.Entry)
	if e == nil {
		return nil
	}
	src := c.Input.Bytes()
	buf := make([]byte, len(src), len(src)+64)
	copy(buf, src)
	spare := buf[len(src):cap(buf)]
	for i := range spare {
		spare[i] = sentinel
	}
	checkSentinel := func(when string) error {
		for i, b := range buf[len(src):cap(buf)] {
			if b != sentinel {
				return fmt.Errorf("%s: %s wrote to byte %d beyond the end of the caller's slice (append into the input buffer)", e.Name, when, i)
			}
		}
		return nil
	}
	res := e.Parse(buf, c.Input.Typ)
	if err := checkSentinel("parsing"); err != nil {
		return err
	}
	if !res.Accepted {
		r.Class("rejected")
		return nil
	}
	r.Class("accepted:" + e.Name)
	consumed := len(src) - len(res.Rem)
	if !e.HasRem {
		consumed = len(src)
	}
	// the serialisation of the first observation is taken again from the value each time
	reparseOf := func(res lib.Result) lib.Result {
		// re-serialise through the same adapter: serialise the value we already hold
		out := res
		switch v := res.Value.(type) {
		case interface{ Bytes() ([]byte, error) }:
			out.Serial, out.SerErr = v.Bytes()
		case interface{ Bytes() []byte }:
			out.Serial = v.Bytes()
		}
		return out
	}
	reparse := func() lib.Result { return reparseOf(res) }
	first, panics := observe(e, reparse())
	if len(panics) > 0 {
		return fmt.Errorf("%s: %s", e.Name, strings.Join(panics, "; "))
	}
	if err := checkSentinel("an accessor"); err != nil {
		return err
	}
	touched := false
	returned := first.slices
	for i, st := range c.Steps {
		switch st.Op {
		case "invert":
			for j := range buf {
				buf[j] ^= 0xff
			}
			touched = touched || consumed > 0
		case "zero":
			for j := range buf {
				buf[j] = 0
			}
			touched = touched || consumed > 0
		case "range":
			if len(buf) > 0 {
				p := st.Pos % len(buf)
				for j := p; j < len(buf) && j < p+st.Len; j++ {
					buf[j] = byte(st.Val)
				}
				touched = touched || p < consumed
			}
		case "returned":
			for _, s := range returned {
				for j := range s {
					s[j] ^= 0x5a
				}
			}
			if len(returned) > 0 {
				r.Class("scribbled-on-returned-slices")
			}
		}
		obs, panics := observe(e, reparse())
		if len(panics) > 0 {
			return fmt.Errorf("%s after step %d (%s): %s", e.Name, i, st.Op, strings.Join(panics, "; "))
		}
		if err := checkSentinel("an accessor"); err != nil {
			return err
		}
		if obs.text != first.text {
			what := "the input buffer was overwritten"
			if st.Op == "returned" {
				what = "byte slices returned by accessors were overwritten"
			}
			return fmt.Errorf("%s: the value changed after %s (step %d %s):%s", e.Name, what, i, st.Op, firstDiffLine(first.text, obs.text))
		}
		returned = obs.slices
	}
	// The remainder a parser returns is the caller's memory again: writing through that
	// slice (receiving the next message into it, say) must not reach into the value either.
	if e.HasRem && len(res.Rem) > 0 {
		buf3 := append(make([]byte, 0, len(src)+8), src...)
		res3 := e.Parse(buf3, c.Input.Typ)
		if res3.Accepted && len(res3.Rem) > 0 {
			for j := range res3.Rem {
				res3.Rem[j] ^= 0xff
			}
			obs3, panics := observe(e, reparseOf(res3))
			if len(panics) > 0 {
				return fmt.Errorf("%s (returned remainder overwritten): %s", e.Name, strings.Join(panics, "; "))
			}
			if obs3.text != first.text {
				return fmt.Errorf("%s: the value changed after the remainder slice the parser returned was overwritten:%s", e.Name, firstDiffLine(first.text, obs3.text))
			}
			r.Class("remainder-overwritten")
		}
	}
	// A second value is parsed from a pristine copy of the input and its buffer is
	// overwritten before any method has been called on it (a parser that defers its
	// copy to the first read detaches only when somebody looks). What it then reports
	// must be what the first value reported before anything was overwritten.
	if consumed > 0 {
		buf2 := append(make([]byte, 0, len(src)+8), src...)
		lib.NoSerial = true
		res2 := e.Parse(buf2, c.Input.Typ)
		lib.NoSerial = false
		if res2.Accepted {
			for j := range buf2 {
				buf2[j] ^= 0xff
			}
			obs2, panics := observe(e, reparseOf(res2))
			if len(panics) > 0 {
				return fmt.Errorf("%s (buffer overwritten before the first read): %s", e.Name, strings.Join(panics, "; "))
			}
			if obs2.text != first.text {
				return fmt.Errorf("%s: a value whose input buffer was overwritten before any of its methods was called reports something else than a value parsed from the same bytes and left alone:%s", e.Name, firstDiffLine(first.text, obs2.text))
			}
			r.Class("overwritten-before-first-read")
		}
	}
	if touched {
		r.NonTrivial(c, []byte(e.Name), src)
	}
	return nil
}

// copyDocumented: accessors whose documentation promises a copy -
// Signature.Bytes/Serialize, OfflineSignature.TransientPublicKey/Signature,
// EncryptedLeaseSet.BlindedPublicKey/EncryptedInnerData. Only slices obtained
// from these are scribbled on by the "returned" step (other accessors, e.g.
// Certificate.Data or the exported Padding field, make no such promise).
func copyDocumented(entry, path string) bool {
	has := func(sfx ...string) bool {
		for _, x := range sfx {
			if strings.HasSuffix(path, x) {
				return true
			}
		}
		return false
	}
	top := strings.Count(path[len(entry):], ".") == 1
	switch {
	case has(".Signature().Bytes", ".Signature().Serialize"):
		return true
	case strings.HasPrefix(entry, "signature.") && top && has(".Bytes", ".Serialize"):
		return true
	case has("OfflineSignature().TransientPublicKey", "OfflineSignature().Signature"):
		return true
	case strings.HasPrefix(entry, "offline_signature.") && top && has(".TransientPublicKey", ".Signature"):
		return true
	case strings.HasPrefix(entry, "encrypted_leaseset.") && top && has(".BlindedPublicKey", ".EncryptedInnerData"):
		return true
	}
	return false
}

func genCase(t *rapid.T) Case {
	e := rapid.SampledFrom(entries).Draw(t, "entry")
	var b []byte
	typ := 0
	switch e {
	case "lease_set2.ReadLeaseSet2":
		s := gen.LS2G(t, "ls2", nil)
		s.Options = nil
		m, _, _ := s.Build()
		b = m.Encode()
	case "meta_leaseset.ReadMetaLeaseSet":
		s := gen.MetaG(t, "meta", nil)
		s.Options = nil
		for i := range s.Entries {
			s.Entries[i].Props = nil
		}
		m, _, _ := s.Build()
		b = m.Encode()
	default:
		b, typ, _ = gen.ValidFor(t, e)
	}
	if rapid.Bool().Draw(t, "suffix") && e != "signature.NewSignatureFromBytes" {
		b = append(append([]byte{}, b...), model.Fill(rapid.IntRange(1, 30).Draw(t, "sfx"), 5)...)
	}
	c := Case{Input: gen.Input{Entry: e, Typ: typ, Hex: ev.H(b), Source: "valid"}}
	n := rapid.IntRange(1, 4).Draw(t, "nsteps")
	for i := 0; i < n; i++ {
		st := Step{Op: rapid.SampledFrom([]string{"invert", "zero", "range", "range", "returned"}).Draw(t, "op")}
		if st.Op == "range" {
			st.Pos = rapid.IntRange(0, 1200).Draw(t, "pos")
			st.Len = rapid.SampledFrom([]int{1, 4, 32, 64, 400}).Draw(t, "len")
			st.Val = rapid.IntRange(0, 255).Draw(t, "val")
		}
		c.Steps = append(c.Steps, st)
	}
	return c
}

var prop = &ev.Prop[Case]{Sub: "alias", Quick: 100000, Thorough: 800000, Gen: genCase, Check: check}

func TestRegress(t *testing.T) { prop.Regress(t) }
func TestReplay(t *testing.T)  { prop.Replay(t) }
func TestProp(t *testing.T) {
	for _, n := range entries {
		ev.R().Floor("accepted:"+n, 20)
	}
	ev.R().Floor("scribbled-on-returned-slices", 50)
	prop.Run(t)
}

var _ = bytes.Equal
