// Package c18 decides property C18: shared values may be read concurrently.
// The test binary is built with -race; GORACE=halt_on_error=1 makes the first
// race report end the process, and the case being executed was written to
// $VERIF_OUT.case just before the fan-out, which becomes the replay file.
package c18

import (
	"encoding/json"
	"fmt"
	"os"
	"reflect"
	"runtime"
	"strings"
	"sync"
	"testing"
	"time"

	"github.com/go-i2p/common/base32"
	"github.com/go-i2p/common/base64"
	"github.com/go-i2p/common/certificate"
	"github.com/go-i2p/common/data"
	"github.com/go-i2p/common/destination"
	"github.com/go-i2p/common/encrypted_leaseset"
	"github.com/go-i2p/common/key_certificate"
	"github.com/go-i2p/common/lease"
	"github.com/go-i2p/common/lease_set2"
	"github.com/go-i2p/common/offline_signature"
	"github.com/go-i2p/common/router_address"
	"github.com/go-i2p/common/signature"
	"pgregory.net/rapid"

	"verif/internal/ev"
	"verif/internal/gen"
	"verif/internal/lib"
	"verif/internal/libkeys"
	"verif/internal/model"
)

const rule = "cases: a shared value of each structure type (certificate, key certificate with known, reserved and unknown type codes, keys-and-cert, destination, router identity, router address, RouterInfo, LeaseSet, LeaseSet2 with options and offline block, MetaLeaseSet, EncryptedLeaseSet, offline signature, signature, mapping, lease, Lease2; parsed from a fixed-shape model encoding derived from a seed or (half of the cases) from an encoding drawn from the structure generators of C01/C02 - every key type, flag combination, option set, offline block, lease order -, and for identities / LeaseSet2 / mappings (also with a repeated key) also built through the constructors) x 2..16 goroutines, each running a generated list of 5..40 read-only operations drawn from {every exported argument-free method of the value (serialise, hash, addresses, validate, verify, accessors), size-table lookups, parsing other data, an attempt to decrypt an EncryptedLeaseSet with a key that does not match, verifying a forged sibling of the shared value (one bit of its serialisation changed; must never verify, whatever was verified before), the base32/base64 codecs, the integer / date / string / hash helpers, constructors of certificates, key certificates, router addresses and leases} with generated runtime.Gosched points behind a start barrier; binary built with -race. Oracle: the race detector reports nothing (a report ends the process and the pending case file is the replay), every concurrent result equals the result of the same operation computed sequentially before the fan-out, and the serialisation is unchanged afterwards. Schedules are sampled, not enumerated. Non-trivial: >= 2 goroutines executed at least one common operation on the same value; distinct by (target, operation lists)."

func TestMain(m *testing.M) {
	lib.NoSerial = true // shared values reach the goroutines without any method having been called on them
	ev.Main(m, "C18", rule)
}

type Case struct {
	Target  string  `json:"target"`
	Seed    uint64  `json:"seed"`
	Built   bool    `json:"built"` // constructed instead of parsed (where a constructor path exists)
	Ops     [][]int `json:"ops"`   // per goroutine: operation indices (mod number of operations)
	Yields  []int   `json:"yields"`
	Repeats int     `json:"repeats"`
	// Wire: when set, the shared value is parsed from this generated encoding (the
	// structure generators of C01/C02: every key type, flag, option set, offline
	// block, lease order) instead of the fixed per-target shape derived from Seed
	Wire string `json:"wire_hex,omitempty"`
	Typ  int    `json:"typ,omitempty"`
}

var errRejected = fmt.Errorf("generated encoding not accepted")

var targets = []string{
	"certificate.ReadCertificate", "key_certificate.NewKeyCertificate", "keys_and_cert.ReadKeysAndCert",
	"destination.ReadDestination", "router_identity.ReadRouterIdentity", "router_address.ReadRouterAddress",
	"router_info.ReadRouterInfo", "lease_set.ReadLeaseSet", "lease_set2.ReadLeaseSet2", "meta_leaseset.ReadMetaLeaseSet",
	"encrypted_leaseset.ReadEncryptedLeaseSet", "offline_signature.ReadOfflineSignature", "signature.ReadSignature",
	"data.ReadMapping", "lease.ReadLease", "lease.ReadLease2",
}

// encCache: model signing with DSA/ECDSA keys is randomised, so the encoding of a
// case is produced once and parsed twice (baseline copy and shared value).
var encCache sync.Map

type encoded struct {
	b   []byte
	typ int
}

// value builds the shared value from (target, seed); parsed values come from one
// cached encoding, constructed values only from deterministic signers.
func value(c Case) (any, error) {
	if c.Wire != "" {
		res := lib.ByName(c.Target).Parse(ev.UnH(c.Wire), c.Typ)
		if !res.Accepted || res.Value == nil {
			return nil, errRejected
		}
		return res.Value, nil
	}
	key := fmt.Sprintf("%s/%d/%v", c.Target, c.Seed, c.Built)
	if e, ok := encCache.Load(key); ok {
		en := e.(encoded)
		res := lib.ByName(c.Target).Parse(append([]byte{}, en.b...), en.typ)
		if !res.Accepted {
			return nil, fmt.Errorf("%s rejected the cached encoding: %v", c.Target, res.Err)
		}
		return res.Value, nil
	}
	v, b, typ, err := build(c)
	if err != nil {
		return nil, err
	}
	if b != nil {
		encCache.Store(key, encoded{b, typ})
	}
	return v, nil
}

func build(c Case) (any, []byte, int, error) {
	id := gen.IdentSpec{SigType: []int{7, 0, 1, 11}[c.Seed%4], EncType: []int{4, 0}[c.Seed%2], KeySeed: c.Seed%1000 + 1, PadSeed: c.Seed, Extra: []string{"", "0102"}[c.Seed%2]}
	if id.SigType == 11 && (c.Target == "router_identity.ReadRouterIdentity" || c.Target == "router_info.ReadRouterInfo") {
		id.SigType = 7
	}
	opts := gen.Pairs{{"61", ""}, {"686f7374", "312e322e332e34"}, {"706f7274", "3830"}, {"63617073", "4e5266"}, {"726f757465722e76657273696f6e", "302e392e3634"}}
	var b []byte
	typ := 0
	switch c.Target {
	case "certificate.ReadCertificate", "key_certificate.NewKeyCertificate":
		// known and unknown / reserved type codes (the certificate parsers accept both)
		st := []int{7, 0, 13, 11, 9, 2, 65535, 3, 10, 1}[c.Seed%10]
		et := []int{4, 0, 9, 4, 255, 1, 65280, 0, 8, 5}[(c.Seed/10)%10]
		b = model.KeyCert(st, et, []byte{1, 2, 3}).Encode()
	case "keys_and_cert.ReadKeysAndCert", "destination.ReadDestination", "router_identity.ReadRouterIdentity":
		mid, _ := id.Build()
		if c.Built {
			switch c.Target {
			case "keys_and_cert.ReadKeysAndCert":
				v, err := libkeys.KAC(mid)
				return v, nil, 0, err
			case "destination.ReadDestination":
				v, err := libkeys.Dest(mid)
				return v, nil, 0, err
			default:
				v, err := libkeys.RouterIdent(mid)
				return v, nil, 0, err
			}
		}
		b = mid.Encode()
	case "router_address.ReadRouterAddress":
		b = gen.AddrSpec{Cost: 3, Style: "4e54435032", Options: opts}.Build().Encode()
	case "router_info.ReadRouterInfo":
		s := gen.RouterInfoSpec{Ident: id, Published: 1700000000000, Options: opts, Addrs: []gen.AddrSpec{{Cost: 3, Style: "4e54435032", Options: opts}, {Cost: 9, Style: "53535532", Options: opts[:2]}}}
		m, _ := s.Build()
		b = m.Encode()
	case "lease_set.ReadLeaseSet":
		id.EncType = 0
		s := gen.LeaseSetSpec{Dest: id, Seed: c.Seed%100 + 1, Leases: []gen.LeaseSpec{{Seed: 1, Tunnel: 2, EndMs: 1800000000000}, {Seed: 2, Tunnel: 3, EndMs: 1700000000000}}}
		m, _ := s.Build()
		b = m.Encode()
	case "lease_set2.ReadLeaseSet2", "meta_leaseset.ReadMetaLeaseSet":
		h := gen.HeaderSpec{Dest: id, Published: 1700000000, Expires: 600, Flags: 2}
		if c.Seed%3 == 0 {
			h.Offline = &gen.OfflineSpec{Expires: 1900000000, TType: 7, Seed: 9}
		}
		if c.Target == "lease_set2.ReadLeaseSet2" {
			s := gen.LS2Spec{Header: h, Options: opts[:3], Keys: []gen.KeySpec{{Type: 4, Len: -1, Seed: 1}, {Type: 0, Len: -1, Seed: 2}}, Leases: []gen.Lease2Spec{{Seed: 1, Tunnel: 2, End: 1800000000}, {Seed: 2, Tunnel: 3, End: 1800000001}}}
			m, dk, ok := s.Build()
			if c.Built && h.Offline == nil && (id.SigType == 7 || id.SigType == 11) {
				d, err := libkeys.ParsedDest(m.Dest)
				if err != nil {
					return nil, nil, 0, err
				}
				priv, err := libkeys.SigPriv(ok)
				if err != nil {
					return nil, nil, 0, err
				}
				_ = dk
				mp, _ := data.GoMapToMapping(map[string]string{"a": "", "host": "1.2.3.4"})
				var keys []lease_set2.EncryptionKey
				for _, k := range m.Keys {
					keys = append(keys, lease_set2.EncryptionKey{KeyType: uint16(k.Type), KeyLen: uint16(k.Len), KeyData: k.Data})
				}
				l2, _, _ := lib.ByName("lease.ReadLease2").Parse(m.Leases[0].Encode(), 0), 0, 0
				_ = l2
				ls, err := lease_set2.NewLeaseSet2(d, m.Published, m.Expires, m.Flags, nil, *mp, keys, nil, priv)
				if err == nil {
					return &ls, nil, 0, nil
				}
			}
			b = m.Encode()
		} else {
			s := gen.MetaSpec{Header: h, Options: opts[:2], Entries: []gen.MetaEntrySpec{{Seed: 1, Type: 3, Expires: 1800000000, Cost: 5, Props: opts[:1]}, {Seed: 2, Type: 1, Expires: 1800000001, Cost: 1}}}
			m, _, _ := s.Build()
			b = m.Encode()
		}
	case "encrypted_leaseset.ReadEncryptedLeaseSet":
		s := gen.ELSSpec{SigType: 11, KeySeed: c.Seed%100 + 1, Published: 1700000000, Expires: 600, InnerLen: 100, InnerSeed: 4}
		if c.Seed%2 == 0 {
			s.Offline = &gen.OfflineSpec{Expires: 1900000000, TType: 7, Seed: 9}
		}
		m, _, _ := s.Build()
		b = m.Encode()
	case "offline_signature.ReadOfflineSignature":
		mid, dk := gen.IdentSpec{SigType: 7, EncType: 4, KeySeed: 3}.Build()
		o, _ := gen.OfflineSpec{Expires: 1900000000, TType: 7, Seed: 4}.Build(mid.SigType, dk)
		b, typ = o.Encode(), 7
	case "signature.ReadSignature":
		b, typ = model.Fill(64, c.Seed), 7
	case "data.ReadMapping":
		if c.Built {
			// constructed through MappingValues.Add + ValuesToMapping; one case in two with a
			// repeated key (Add does not refuse it; HasDuplicateKeys exists to report it)
			mv := data.NewMappingValues(4)
			for _, kv := range [][2]string{{"b", "2"}, {"a", "1"}, {"host", "1.2.3.4"}} {
				mv, _ = mv.Add(kv[0], kv[1])
			}
			if c.Seed%2 == 0 {
				mv, _ = mv.Add("a", "3")
			}
			mp, err := data.ValuesToMapping(mv)
			return mp, nil, 0, err
		}
		b = model.MustMapping(opts.Build())
	case "lease.ReadLease":
		b = model.Fill(44, c.Seed)
	case "lease.ReadLease2":
		b = model.Fill(40, c.Seed)
	}
	e := lib.ByName(c.Target)
	res := e.Parse(append([]byte{}, b...), typ)
	if !res.Accepted {
		return nil, nil, 0, fmt.Errorf("%s rejected the generated encoding: %v", c.Target, res.Err)
	}
	return res.Value, b, typ, nil
}

type op struct {
	name string
	run  func() string
}

var skipMethods = map[string]bool{"IsExpired": true, "Validate": true, "IsValid": true, "String": false}

var otherData = func() []byte {
	m, _, _ := gen.LS2Spec{Header: gen.HeaderSpec{Dest: gen.IdentSpec{SigType: 7, EncType: 4, KeySeed: 77, PadSeed: 1}, Published: 5, Expires: 6},
		Options: gen.Pairs{{"6b", "76"}}, Keys: []gen.KeySpec{{Type: 4, Len: -1, Seed: 1}}, Leases: []gen.Lease2Spec{{Seed: 1, Tunnel: 1, End: 9}}}.Build()
	return m.Encode()
}()

var otherAddr = gen.AddrSpec{Cost: 4, Style: "4e54435032", Options: gen.Pairs{{"686f7374", "312e322e332e34"}, {"706f7274", "3830"}}}.Build().Encode()

// forgedSibling derives another value of the same type from the shared value's own
// serialisation with one bit changed (same identity and dates wherever the bit falls
// elsewhere), parses it and asks it to verify. Whatever has been verified before in this
// process, the sibling must not verify: the answer is checked absolutely, not only
// against the sequential baseline.
func forgedSibling(v any, target string) string {
	e := lib.ByName(target)
	b, err, ok := lib.Serialise(v)
	if e == nil || !ok || err != nil || len(b) < 40 {
		return "n/a"
	}
	for k := 15; k >= 9; k-- {
		p := len(b) * k / 16
		sib := append([]byte{}, b...)
		sib[p] ^= 1
		res := e.Parse(sib, 0)
		if !res.Accepted || res.Value == nil {
			continue
		}
		rv := reflect.ValueOf(res.Value)
		if rv.Kind() != reflect.Ptr {
			pv := reflect.New(rv.Type())
			pv.Elem().Set(rv)
			rv = pv
		}
		for _, name := range []string{"Verify", "VerifySignature"} {
			m := rv.MethodByName(name)
			if !m.IsValid() || m.Type().NumIn() != 0 {
				continue
			}
			out := m.Call(nil)
			verified := true
			for _, o := range out {
				switch x := o.Interface().(type) {
				case bool:
					verified = verified && x
				case error:
					verified = verified && x == nil
				case nil:
				}
			}
			return fmt.Sprintf("sibling with bit 0 of byte %d of %d changed: verified=%v", p, len(b), verified)
		}
		return "n/a (no argument-free verifier)"
	}
	return "n/a (no sibling parses)"
}

func operations(v any, target string) []op {
	var ops []op
	rv := reflect.ValueOf(v)
	if rv.Kind() != reflect.Ptr {
		p := reflect.New(rv.Type())
		p.Elem().Set(rv)
		rv = p
	}
	rt := rv.Type()
	for i := 0; i < rt.NumMethod(); i++ {
		m := rt.Method(i)
		if m.Type.NumIn() != 1 || skipMethods[m.Name] {
			continue
		}
		fn := m.Func
		name := m.Name
		ops = append(ops, op{name: name, run: func() (out string) {
			defer func() {
				if x := recover(); x != nil {
					out = fmt.Sprintf("panic: %v", x)
				}
			}()
			return lib.Dump(fn.Call([]reflect.Value{rv})...)
		}})
	}
	// package-level lookups and parsers (exercise the package-level maps)
	ops = append(ops,
		op{"GetKeySizes", func() string {
			a, err := key_certificate.GetKeySizes(7, 4)
			b, _ := key_certificate.GetSigningKeySize(11)
			c, _ := key_certificate.GetCryptoKeySize(0)
			return fmt.Sprint(a, err, b, c, key_certificate.SigningKeySizes[2].SignatureSize, key_certificate.CryptoPublicKeySizes[4])
		}},
		op{"SignatureSize", func() string {
			a, _ := signature.SignatureSize(7)
			return fmt.Sprint(a, offline_signature.SignatureSize(2), offline_signature.SigningPublicKeySize(11))
		}},
		op{"parse-other", func() string {
			ls, rem, err := lease_set2.ReadLeaseSet2(otherData)
			if err != nil {
				return "err"
			}
			b, _ := ls.Bytes()
			return fmt.Sprintf("%d %x", len(rem), b[:8])
		}},
		op{"base-codecs", func() string {
			raw := otherData[:61]
			e32, e64 := base32.EncodeToString(raw), base64.EncodeToString(raw)
			d32, err1 := base32.DecodeString(e32)
			d64, err2 := base64.DecodeString(e64)
			u32, err3 := base32.DecodeStringNoPadding(base32.EncodeToStringNoPadding(raw))
			return fmt.Sprintf("%s %s %x %x %x %v %v %v", e32[:8], e64[:8], d32[:4], d64[len(d64)-4:], u32[:4], err1, err2, err3)
		}},
		op{"integers-dates-strings", func() string {
			a, _ := data.EncodeIntN(0x1234, 3)
			b, _ := data.EncodeIntN(7, 1)
			i, _ := data.NewIntegerFromInt(65535, 2)
			n, _ := data.DecodeIntN([]byte{1, 2, 3})
			d, _ := data.NewDateFromMillis(1700000000123)
			st, _ := data.NewI2PString("caps")
			h := data.HashData(otherData[:40])
			return fmt.Sprintf("%x %x %x %d %x %x %x %x", a, b, i.Bytes(), n, d.Bytes(), []byte(st), h[:4], data.EncodeUint32(77))
		}},
		op{"constructors", func() string {
			kc, err1 := key_certificate.NewKeyCertificateWithTypes(7, 4)
			ce, err2 := certificate.NewCertificateWithType(5, []byte{0, 7, 0, 4, 9})
			ra, err3 := router_address.NewRouterAddress(3, time.Unix(0, 0), "NTCP2", map[string]string{"host": "1.2.3.4", "port": "99"})
			l2, err4 := lease.NewLease2(data.Hash{1, 2, 3}, 5, time.Unix(1700000000, 0))
			if err1 != nil || err2 != nil || err3 != nil || err4 != nil {
				return fmt.Sprint(err1, err2, err3, err4)
			}
			return fmt.Sprintf("%x %x %x %x", kc.Bytes(), ce.Bytes(), ra.Bytes(), l2.Bytes())
		}},
		op{"parse-identity-and-address", func() string {
			d, rem, err := destination.ReadDestination(otherData)
			if err != nil {
				return "err"
			}
			a, _ := d.Base32Address()
			h, _ := d.Hash()
			ra, _, err := router_address.ReadRouterAddress(otherAddr)
			if err != nil {
				return "err2"
			}
			hs, _ := ra.Host()
			return fmt.Sprintf("%d %s %x %v %s", len(rem), a, h[:4], hs, ra.PortString())
		}},
		op{"forged-sibling", func() string { return forgedSibling(v, target) }},
		op{"decrypt-attempt", func() string {
			// a query that takes arguments: an attempt to decrypt (with a key that does not
			// match) reads the value and must leave it as it was
			els, ok := v.(*encrypted_leaseset.EncryptedLeaseSet)
			if !ok {
				if ev, isVal := v.(encrypted_leaseset.EncryptedLeaseSet); isVal {
					els, ok = &ev, true
				}
			}
			if !ok {
				return "n/a"
			}
			ls, err := els.DecryptInnerData(model.Fill(32, 5), model.Fill(32, 6))
			return fmt.Sprintf("value=%v err=%v", ls != nil, err != nil)
		}},
		op{"mapping-other", func() string {
			m, err := data.GoMapToMapping(map[string]string{"b": "2", "a": "1", "c": ""})
			if err != nil {
				return "err"
			}
			return fmt.Sprintf("%x", m.Data())
		}},
	)
	return ops
}

func check(c Case, r *ev.Rec) error {
	// The baseline comes from a separately built copy: the shared value must not
	// have been touched by any call before the fan-out (a lazily filled cache is
	// only racy on first use).
	vb, err := value(c)
	if err == errRejected {
		r.Class("generated-encoding-rejected")
		return nil
	}
	if err != nil {
		return err
	}
	if c.Wire != "" {
		r.Class("shared-value:generated-encoding")
	}
	baseOps := operations(vb, c.Target)
	base := make([]string, len(baseOps))
	for i, o := range baseOps {
		base[i] = o.run()
	}
	for i, o := range baseOps {
		if o.name == "forged-sibling" && strings.Contains(base[i], "verified=true") {
			return fmt.Errorf("%s: after the genuine value was verified in this process, a forged %s", c.Target, base[i])
		}
	}
	v, err := value(c)
	if err != nil {
		return err
	}
	ops := operations(v, c.Target)
	if len(ops) == 0 || len(ops) != len(baseOps) {
		return nil
	}
	before := lib.Dump(reflect.ValueOf(v))
	if p := os.Getenv("VERIF_OUT"); p != "" {
		if b, err := json.Marshal(struct {
			Property string `json:"property"`
			Sub      string `json:"sub"`
			Message  string `json:"message"`
			Case     Case   `json:"case"`
		}{"C18", "concurrent", "case executing when the race detector ended the process", c}); err == nil {
			_ = os.WriteFile(p+".case", b, 0o644)
		}
	}
	reps := c.Repeats
	if reps < 1 {
		reps = 1
	}
	type mismatch struct {
		g, k      int
		name, got string
	}
	var mu sync.Mutex
	var bad []mismatch
	used := make([]map[int]bool, len(c.Ops))
	for rep := 0; rep < reps; rep++ {
		var wg sync.WaitGroup
		start := make(chan struct{})
		for g := range c.Ops {
			used[g] = map[int]bool{}
			wg.Add(1)
			go func(g int) {
				defer wg.Done()
				<-start
				for k, idx := range c.Ops[g] {
					i := ((idx % len(ops)) + len(ops)) % len(ops)
					used[g][i] = true
					if len(c.Yields) > 0 && c.Yields[(g+k)%len(c.Yields)]%3 == 0 {
						runtime.Gosched()
					}
					got := ops[i].run()
					if got != base[i] {
						mu.Lock()
						bad = append(bad, mismatch{g, k, ops[i].name, got})
						mu.Unlock()
					}
				}
			}(g)
		}
		close(start)
		wg.Wait()
	}
	r.EvalN(len(c.Ops))
	if len(bad) > 0 {
		b := bad[0]
		return fmt.Errorf("%s: goroutine %d step %d: %s returned a different result concurrently than sequentially (%d mismatches)\n concurrent: %.300s\n sequential: %.300s", c.Target, b.g, b.k, b.name, len(bad), b.got, base[indexOf(ops, b.name)])
	}
	// nothing was mutated: neither what the operations report nor the receiver's
	// own (also unexported) state
	if after := lib.Dump(reflect.ValueOf(v)); after != before {
		return fmt.Errorf("%s: the receiver's state changed during read-only operations (deep dump before and after differ)", c.Target)
	}
	for i, o := range ops {
		if got := o.run(); got != base[i] {
			return fmt.Errorf("%s: %s returns a different result after the concurrent reads (a read-only operation mutated the value)", c.Target, o.name)
		}
	}
	common := false
	for i := 0; i < len(ops) && !common; i++ {
		n := 0
		for g := range used {
			if used[g][i] {
				n++
			}
		}
		common = n >= 2
	}
	r.Class("target:" + c.Target)
	r.Class(fmt.Sprintf("goroutines:%d", len(c.Ops)))
	if common {
		r.NonTrivialStr(c, c.Target, fmt.Sprint(c.Seed, c.Built, c.Ops), c.Wire)
	}
	return nil
}

func indexOf(ops []op, name string) int {
	for i, o := range ops {
		if o.name == name {
			return i
		}
	}
	return 0
}

func genCase(t *rapid.T) Case {
	c := Case{Target: rapid.SampledFrom(targets).Draw(t, "target"), Seed: rapid.Uint64Range(1, 1<<20).Draw(t, "seed"), Built: rapid.Bool().Draw(t, "built"), Repeats: rapid.IntRange(1, 3).Draw(t, "repeats")}
	n := rapid.IntRange(2, 16).Draw(t, "goroutines")
	for g := 0; g < n; g++ {
		k := rapid.IntRange(5, 40).Draw(t, "nops")
		focus := rapid.IntRange(0, 60).Draw(t, "focus")
		row := make([]int, k)
		for i := range row {
			if rapid.IntRange(0, 2).Draw(t, "same") == 0 {
				row[i] = focus // several goroutines hammer the same operation
			} else {
				row[i] = rapid.IntRange(0, 200).Draw(t, "op")
			}
		}
		c.Ops = append(c.Ops, row)
	}
	c.Yields = rapid.SliceOfN(rapid.IntRange(0, 5), 1, 16).Draw(t, "yields")
	if rapid.Bool().Draw(t, "generated") {
		b, typ, _ := gen.ValidFor(t, c.Target)
		if len(b) <= 6000 {
			c.Wire, c.Typ, c.Built = ev.H(b), typ, false
		}
	}
	return c
}

var prop = &ev.Prop[Case]{Sub: "concurrent", Quick: 4000, Thorough: 80000, Gen: genCase, Check: check}

func TestRegress(t *testing.T) { prop.Regress(t) }
func TestReplay(t *testing.T) {
	// a replayed case is run many times: schedules are sampled
	for i := 0; i < 50; i++ {
		if !prop.Replay(t) {
			return
		}
	}
}
func TestProp(t *testing.T) { prop.Run(t) }
