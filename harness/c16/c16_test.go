// Package c16 decides property C16: decrypt(encrypt(x)) = x, authenticated
// rejection of any modified ciphertext or other key, and deterministic,
// checkable, day-granular blinding.
package c16

import (
	"bytes"
	"fmt"
	"math/big"
	"testing"
	"time"

	"github.com/go-i2p/common/destination"
	"github.com/go-i2p/common/encrypted_leaseset"
	"github.com/go-i2p/common/lease_set2"
	"github.com/go-i2p/crypto/kdf"
	"go.step.sm/crypto/x25519"
	"pgregory.net/rapid"

	"verif/internal/ev"
	"verif/internal/gen"
	"verif/internal/model"
)

const rule = "cases (a): LeaseSet2 values (model-encoded, parsed; one in twenty of 20..60 KB, one in eight without leases; every identity type, 1..16 keys, 1..16 leases, options, offline blocks), recipient X25519 key pairs and cookies derived from seeds (one in four a degenerate cookie: all zero, all ones, one set bit, half empty, one repeated byte); per case every single byte position of the ciphertext (ephemeral key, nonce, body, tag) x {xor 0x01, xor 0x80, xor a drawn non-zero value}, truncation by 1 and extension by 1, and a private key whose public key differs. cases (b): (destination with an Ed25519 or RedDSA key that is a real curve point, secret of 32..64 bytes, instant) with instants drawn around UTC midnights +-1 s / +-1 ns between 1970 and 2200 and landmark instants (Go's zero time 0001-01-01, the epoch, 2^31, 2^32, year 9999) and expressed in locations UTC-14h..+14h. Oracles: decrypt(encrypt(x)).Bytes() = x.Bytes(), again on a second call with the same key object, the caller's key and cookie unchanged; any modified byte, changed length or different key => error and nil value; CreateBlindedDestination equal for two instants iff same UTC calendar day (own civil-date computation), independent of location; output keeps encryption key, padding and certificate and differs in the signing key; VerifyBlindedSignature true with the factor derived for that secret and day (also for both destinations re-read from their bytes), false for another day, another secret, and other factors (derived + k*L for every k that fits 32 bytes, single-bit differences at 39 positions per case, zero, L). Non-trivial: every case (each carries hundreds of modified ciphertexts); distinct by (plaintext, keys) / (destination, secret, instant)."

func TestMain(m *testing.M) { ev.Main(m, "C16", rule) }

// order of the Ed25519 base-point group: 2^252 + 27742317777372353535851937790883648493
var groupOrder, _ = new(big.Int).SetString("7237005577332262213973186563042994240857116359379907606001950938285454250989", 10)

// ---------------------------------------------------------------------------
// (a) encryption

type EncCase struct {
	LS2     gen.LS2Spec `json:"ls2"`
	KeySeed uint64      `json:"recipient_seed"`
	Cookie  uint64      `json:"cookie_seed"`
	Xor     int         `json:"xor"`
	Rep     int         `json:"key_rep"`
}

func recipient(seed uint64) (x25519.PrivateKey, x25519.PublicKey) {
	priv := x25519.PrivateKey(model.Fill(32, seed^0x25519))
	pub, err := priv.PublicKey()
	if err != nil {
		panic(err)
	}
	return priv, pub
}

func elsWith(inner []byte, seed uint64) (*encrypted_leaseset.EncryptedLeaseSet, error) {
	bk := model.NewSignKey(11, seed)
	e := model.ELS{SigType: 11, Blinded: bk.Pub, Published: 1700000000, Expires: 600, Inner: inner}
	e.Sig = bk.Sign(e.SignedPart())
	els, _, err := encrypted_leaseset.ReadEncryptedLeaseSet(e.Encode())
	if err != nil {
		return nil, err
	}
	return &els, nil
}

// cookieFor: the subcredential / cookie of a case. Seeds below 10 are the degenerate
// values a sanity check might single out (all zero, all ones, one set bit, half empty,
// one repeated byte); every other seed fills the 32 bytes pseudo-randomly.
func cookieFor(seed uint64) (c [32]byte) {
	switch seed {
	case 0: // all zero
	case 1:
		for i := range c {
			c[i] = 0xff
		}
	case 2:
		c[0] = 1
	case 3:
		c[31] = 1
	case 4:
		c[31] = 0x80
	case 5:
		copy(c[16:], model.Fill(16, 5))
	case 6:
		copy(c[:16], model.Fill(16, 6))
	case 7:
		for i := range c {
			c[i] = 0x01
		}
	case 8:
		for i := range c {
			c[i] = byte(i)
		}
	case 9:
		c[15] = 0x10
	default:
		copy(c[:], model.Fill(32, seed))
	}
	return c
}

func checkEnc(c EncCase, r *ev.Rec) error {
	m, _, _ := c.LS2.Build()
	plain := m.Encode()
	ls, rem, err := lease_set2.ReadLeaseSet2(plain)
	if err != nil || len(rem) != 0 {
		return fmt.Errorf("ReadLeaseSet2 on the model encoding: %v", err)
	}
	priv, pub := recipient(c.KeySeed)
	cookie := cookieFor(c.Cookie)
	if c.Cookie < 10 {
		r.Class("enc:degenerate-cookie")
	}
	var pubArg interface{} = pub
	switch c.Rep % 3 {
	case 1:
		pubArg = &pub
	case 2:
		pubArg = []byte(pub)
	}
	ct, err := encrypted_leaseset.EncryptInnerLeaseSet2(&ls, cookie, pubArg)
	if err != nil {
		return fmt.Errorf("EncryptInnerLeaseSet2: %v", err)
	}
	if len(ct) != 32+12+len(plain)+16 {
		return fmt.Errorf("ciphertext is %d bytes for a %d-byte plaintext (expected eph 32 + nonce 12 + body + tag 16)", len(ct), len(plain))
	}
	if len(ct) > 65535 {
		return nil
	}
	els, err := elsWith(ct, c.KeySeed)
	if err != nil {
		return fmt.Errorf("EncryptedLeaseSet carrying the ciphertext does not parse: %v", err)
	}
	var privArg interface{} = priv
	switch c.Rep % 3 {
	case 1:
		privArg = &priv
	case 2:
		privArg = []byte(priv)
	}
	privCopy := append([]byte{}, priv...)
	cookieCopy := cookie
	back, err := els.DecryptInnerData(cookie[:], privArg)
	if err != nil || back == nil {
		return fmt.Errorf("DecryptInnerData(EncryptInnerLeaseSet2(x)) failed: %v", err)
	}
	bb, err := back.Bytes()
	if err != nil || !bytes.Equal(bb, plain) {
		return fmt.Errorf("decrypt(encrypt(x)) differs from x (%d vs %d bytes, err %v)", len(bb), len(plain), err)
	}
	// the caller's key and cookie are inputs: decrypting does not change them, and the
	// same key decrypts the same value again (and another value carrying the same ciphertext)
	if !bytes.Equal(priv, privCopy) || cookie != cookieCopy {
		return fmt.Errorf("DecryptInnerData changed the caller's private key or cookie (key form %d)", c.Rep%3)
	}
	for again := 0; again < 2; again++ {
		target := els
		if again == 1 {
			if target, err = elsWith(ct, c.KeySeed); err != nil {
				return err
			}
		}
		b2, err := target.DecryptInnerData(cookie[:], privArg)
		if err != nil || b2 == nil {
			return fmt.Errorf("a second DecryptInnerData with the same key (form %d) failed: %v", c.Rep%3, err)
		}
		if bb2, err := b2.Bytes(); err != nil || !bytes.Equal(bb2, plain) {
			return fmt.Errorf("a second decryption with the same key returns other bytes (err %v)", err)
		}
	}
	// a private key with a different public key
	priv2, pub2 := recipient(c.KeySeed + 1)
	if !bytes.Equal(pub2, pub) {
		if v, err := els.DecryptInnerData(cookie[:], priv2); err == nil || v != nil {
			return fmt.Errorf("DecryptInnerData succeeded with a different private key")
		}
	}
	// every single byte position
	xorVals := []byte{0x01, 0x80, byte(c.Xor%255 + 1)}
	mod := make([]byte, len(ct))
	for pos := 0; pos < len(ct); pos++ {
		if len(ct) > 6000 && pos > 100 && pos < len(ct)-100 && pos%211 != 0 {
			continue // large ciphertexts: both ends completely, every 211th byte in between
		}
		for _, x := range xorVals {
			copy(mod, ct)
			mod[pos] ^= x
			e2, err := elsWith(mod, c.KeySeed)
			if err != nil {
				return err
			}
			r.Eval()
			v, derr := e2.DecryptInnerData(cookie[:], priv)
			if derr == nil || v != nil {
				region := "body"
				switch {
				case pos < 32:
					region = "ephemeral key"
				case pos < 44:
					region = "nonce"
				case pos >= len(ct)-16:
					region = "tag"
				}
				return fmt.Errorf("ciphertext byte %d (%s) xor %#02x: DecryptInnerData still returns a value (err %v)", pos, region, x, derr)
			}
		}
	}
	for _, alt := range [][]byte{ct[:len(ct)-1], append(append([]byte{}, ct...), 0)} {
		if len(alt) < 61 || len(alt) > 65535 {
			continue
		}
		e2, err := elsWith(alt, c.KeySeed)
		if err != nil {
			return err
		}
		if v, derr := e2.DecryptInnerData(cookie[:], priv); derr == nil || v != nil {
			return fmt.Errorf("ciphertext of changed length %d (was %d) still decrypts", len(alt), len(ct))
		}
	}
	r.ClassN("modified-ciphertexts", 3*len(ct)+2)
	r.NonTrivial(c, plain, pub)
	return nil
}

var propEnc = &ev.Prop[EncCase]{Sub: "encrypt", Quick: 240, Thorough: 12000,
	Gen: func(t *rapid.T) EncCase {
		s := gen.LS2G(t, "ls2", nil)
		if len(s.Leases) > 6 && rapid.IntRange(0, 3).Draw(t, "trim") > 0 {
			s.Leases = s.Leases[:2]
		}
		if rapid.IntRange(0, 7).Draw(t, "noleases") == 0 {
			s.Leases = nil // a lease count of zero is a well-formed LeaseSet2 on the wire
		}
		if rapid.IntRange(0, 19).Draw(t, "big") == 0 {
			// a LeaseSet2 of 20..60 KB (options mapping of 80..230 pairs of about 260 bytes): the
			// ciphertext still fits the 16-bit inner length of an EncryptedLeaseSet
			n := rapid.IntRange(80, 230).Draw(t, "bigpairs")
			m := map[string]string{}
			for i := 0; i < n; i++ {
				m[fmt.Sprintf("k%03d.", i)+string(model.Fill(60, uint64(i)+1)[:1])] = string(model.Fill(190, uint64(i)+77))
			}
			s.Options = nil
			for _, p := range model.PairsFromMap(m) {
				s.Options = append(s.Options, [2]string{ev.H(p.K), ev.H(p.V)})
			}
			s.Keys, s.Leases = s.Keys[:1], s.Leases[:min(len(s.Leases), 1)]
		}
		if len(s.Keys) > 4 && rapid.IntRange(0, 3).Draw(t, "trimk") > 0 {
			s.Keys = s.Keys[:2]
		}
		for i := range s.Keys {
			if s.Keys[i].Len > 40 {
				s.Keys[i].Len = 33
			}
		}
		cookie := rapid.Uint64().Draw(t, "cookie")
		if rapid.IntRange(0, 3).Draw(t, "degenerate") == 0 {
			cookie = rapid.Uint64Range(0, 9).Draw(t, "cookie10")
		}
		return EncCase{LS2: s, KeySeed: rapid.Uint64Range(1, 1<<30).Draw(t, "kseed"), Cookie: cookie,
			Xor: rapid.IntRange(0, 254).Draw(t, "xor"), Rep: rapid.IntRange(0, 2).Draw(t, "rep")}
	}, Check: checkEnc}

// ---------------------------------------------------------------------------
// (b) blinding

type BlindCase struct {
	Dest    gen.IdentSpec `json:"dest"`
	Secret  uint64        `json:"secret_seed"`
	SecLen  int           `json:"secret_len"`
	Unix    int64         `json:"unix"`
	Nanos   int64         `json:"nanos"`
	ZoneSec int           `json:"zone_offset_s"`
	Unix2   int64         `json:"unix2"`
	Zone2   int           `json:"zone2_offset_s"`
}

// civil date of a Unix second count (proleptic Gregorian, UTC) - own computation.
func civil(unix int64) string {
	days := unix / 86400
	if unix%86400 < 0 {
		days--
	}
	z := days + 719468
	era := z / 146097
	if z < 0 {
		era = (z - 146096) / 146097
	}
	doe := z - era*146097
	yoe := (doe - doe/1460 + doe/36524 - doe/146096) / 365
	y := yoe + era*400
	doy := doe - (365*yoe + yoe/4 - yoe/100)
	mp := (5*doy + 2) / 153
	d := doy - (153*mp+2)/5 + 1
	mo := mp + 3
	if mo > 12 {
		mo -= 12
	}
	if mo <= 2 {
		y++
	}
	return fmt.Sprintf("%04d-%02d-%02d", y, mo, d)
}

func checkBlind(c BlindCase, r *ev.Rec) error {
	id, _ := c.Dest.Build()
	dest, rem, err := destination.ReadDestination(id.Encode())
	if err != nil || len(rem) != 0 {
		return fmt.Errorf("ReadDestination: %v", err)
	}
	secret := model.Fill(c.SecLen, c.Secret)
	t1 := time.Unix(c.Unix, c.Nanos).In(time.FixedZone("z1", c.ZoneSec))
	t2 := time.Unix(c.Unix2, 0).In(time.FixedZone("z2", c.Zone2))
	b1, err := encrypted_leaseset.CreateBlindedDestination(dest, secret, t1)
	if err != nil {
		return fmt.Errorf("CreateBlindedDestination(sig %d, secret %d bytes, %s): %v", id.SigType, len(secret), t1.UTC(), err)
	}
	// deterministic
	b1again, err := encrypted_leaseset.CreateBlindedDestination(dest, secret, time.Unix(c.Unix, c.Nanos).UTC())
	if err != nil {
		return err
	}
	x1, _ := b1.Bytes()
	x1a, _ := b1again.Bytes()
	if !bytes.Equal(x1, x1a) {
		return fmt.Errorf("blinding depends on the time zone or is not deterministic: same instant in UTC%+ds and UTC gives different destinations", c.ZoneSec)
	}
	// keeps encryption key, padding, certificate; differs in signing key
	bid, n, err := model.DecodeIdent(x1)
	if err != nil || n != len(x1) {
		return fmt.Errorf("blinded destination does not decode: %v", err)
	}
	if !bytes.Equal(bid.Enc, id.Enc) || !bytes.Equal(bid.Pad, id.Pad) || !bytes.Equal(bid.Cert.Encode(), id.Cert.Encode()) {
		return fmt.Errorf("blinding changed the encryption key, padding or certificate")
	}
	if bytes.Equal(bid.Sig, id.Sig) {
		return fmt.Errorf("blinded destination carries the original signing key")
	}
	// day rotation
	day1, day2 := civil(t1.Unix()), civil(c.Unix2)
	b2, err := encrypted_leaseset.CreateBlindedDestination(dest, secret, t2)
	if err != nil {
		return err
	}
	x2, _ := b2.Bytes()
	if bytes.Equal(x1, x2) != (day1 == day2) {
		return fmt.Errorf("instants %d (UTC day %s) and %d (UTC day %s): blinded destinations equal = %v", t1.Unix(), day1, c.Unix2, day2, bytes.Equal(x1, x2))
	}
	// the library's own check
	alpha, err := kdf.DeriveBlindingFactor(secret, day1)
	if err != nil {
		return fmt.Errorf("DeriveBlindingFactor(%q): %v", day1, err)
	}
	if !encrypted_leaseset.VerifyBlindedSignature(b1, dest, alpha) {
		return fmt.Errorf("VerifyBlindedSignature rejects the library's own blinded destination (signing type %d) with the factor derived for %s", id.SigType, day1)
	}
	// the check is about the two destinations, not about the objects that happen to hold them:
	// both are re-read from their bytes (what a relying party has) and checked again
	destAgain, _, err1 := destination.ReadDestination(append([]byte{}, id.Encode()...))
	b1Again, _, err2 := destination.ReadDestination(append([]byte{}, x1...))
	if err1 != nil || err2 != nil {
		return fmt.Errorf("re-reading the original / blinded destination: %v / %v", err1, err2)
	}
	if !encrypted_leaseset.VerifyBlindedSignature(b1Again, destAgain, alpha) || !encrypted_leaseset.VerifyBlindedSignature(b1Again, dest, alpha) || !encrypted_leaseset.VerifyBlindedSignature(b1, destAgain, alpha) {
		return fmt.Errorf("VerifyBlindedSignature accepts the blinded destination object CreateBlindedDestination returned, but not the same destinations re-read from their bytes")
	}
	other := alpha
	other[0] ^= 1
	if encrypted_leaseset.VerifyBlindedSignature(b1, dest, other) {
		return fmt.Errorf("VerifyBlindedSignature accepts a different blinding factor")
	}
	// other encodings that a lenient check might equate with the derived factor:
	// alpha + k*L (the same residue modulo the group order, a different 32-byte
	// factor), single-bit differences at every bit position, zero, and L
	le := func(x *big.Int) (out [32]byte, ok bool) {
		b := x.Bytes()
		if len(b) > 32 {
			return out, false
		}
		for i, v := range b {
			out[len(b)-1-i] = v
		}
		return out, true
	}
	rev := make([]byte, 32)
	for i := range rev {
		rev[i] = alpha[31-i]
	}
	a := new(big.Int).SetBytes(rev)
	for k := int64(1); k <= 16; k++ {
		f, ok := le(new(big.Int).Add(a, new(big.Int).Mul(groupOrder, big.NewInt(k))))
		if !ok {
			break
		}
		if encrypted_leaseset.VerifyBlindedSignature(b1, dest, f) {
			return fmt.Errorf("VerifyBlindedSignature accepts a factor other than the derived one: derived + %d*L (the same residue modulo the group order, different bytes)", k)
		}
		r.Class("blind:factor-plus-multiple-of-L")
	}
	for bit := 0; bit < 256; bit++ {
		if (bit+int(c.Secret))%8 != 0 && bit < 248 {
			continue // 31 sampled positions per case plus the top byte
		}
		f := alpha
		f[bit/8] ^= 1 << uint(bit%8)
		if encrypted_leaseset.VerifyBlindedSignature(b1, dest, f) {
			return fmt.Errorf("VerifyBlindedSignature accepts the derived factor with bit %d flipped", bit)
		}
	}
	var zero [32]byte
	lf, _ := le(groupOrder)
	if encrypted_leaseset.VerifyBlindedSignature(b1, dest, zero) || encrypted_leaseset.VerifyBlindedSignature(b1, dest, lf) {
		return fmt.Errorf("VerifyBlindedSignature accepts the zero factor (or L)")
	}
	if day1 != day2 {
		alpha2, _ := kdf.DeriveBlindingFactor(secret, day2)
		if encrypted_leaseset.VerifyBlindedSignature(b1, dest, alpha2) {
			return fmt.Errorf("VerifyBlindedSignature accepts the factor of another day")
		}
		r.Class("blind:different-days")
	} else {
		r.Class("blind:same-day")
	}
	alpha3, _ := kdf.DeriveBlindingFactor(model.Fill(c.SecLen, c.Secret+1), day1)
	if encrypted_leaseset.VerifyBlindedSignature(b1, dest, alpha3) {
		return fmt.Errorf("VerifyBlindedSignature accepts the factor of another secret")
	}
	r.Class(fmt.Sprintf("blind:sig%d", id.SigType))
	r.NonTrivialStr(c, "blind", fmt.Sprint(c.Dest.KeySeed, c.Dest.SigType, c.Secret, c.SecLen, c.Unix, c.Nanos, c.Unix2))
	return nil
}

var propBlind = &ev.Prop[BlindCase]{Sub: "blind", Quick: 6000, Thorough: 300000,
	Gen: func(t *rapid.T) BlindCase {
		c := BlindCase{Dest: gen.Ident(t, "dest", []int{7, 11}, []int{4, 0})}
		c.Dest.NullCert = false
		c.Secret = rapid.Uint64().Draw(t, "secret")
		c.SecLen = rapid.SampledFrom([]int{32, 33, 48, 64}).Draw(t, "seclen")
		day := rapid.Int64Range(0, 84000).Draw(t, "day") // 1970 .. ~2200
		c.Unix = day*86400 + rapid.SampledFrom([]int64{0, 1, -1, 43200, 86399, 86398}).Draw(t, "tod")
		if c.Unix < 0 {
			c.Unix = 0
		}
		c.Nanos = rapid.SampledFrom([]int64{0, 1, 999999999}).Draw(t, "nanos")
		c.ZoneSec = rapid.SampledFrom([]int{0, 3600, -3600, 14 * 3600, -14 * 3600, 19800, -34200}).Draw(t, "zone")
		switch rapid.IntRange(0, 3).Draw(t, "rel") {
		case 0:
			c.Unix2 = c.Unix + rapid.SampledFrom([]int64{1, -1, 2, 86399, -86399, 86400, -86400}).Draw(t, "d")
		case 1:
			c.Unix2 = (c.Unix/86400)*86400 + rapid.Int64Range(0, 86399).Draw(t, "sameday")
		default:
			c.Unix2 = rapid.Int64Range(0, 84000*86400).Draw(t, "u2")
		}
		if c.Unix2 < 0 {
			c.Unix2 = 0
		}
		c.Zone2 = rapid.SampledFrom([]int{0, 14 * 3600, -14 * 3600, 3600}).Draw(t, "zone2")
		// landmark instants: Go's zero time (0001-01-01), the epoch, the 32-bit limits, year 9999
		if rapid.IntRange(0, 9).Draw(t, "landmark") == 0 {
			c.Unix = rapid.SampledFrom([]int64{-62135596800, -62135596799, -62135510400, -1, 0, 1, 1<<31 - 1, 1 << 31, 1<<32 - 1, 1 << 32, 253402300799}).Draw(t, "landmarkunix")
			c.Nanos = 0
			if c.Unix < 0 {
				c.ZoneSec = rapid.SampledFrom([]int{0, 3600, 7200}).Draw(t, "lmzone")
			}
		}
		return c
	}, Check: checkBlind}

func TestRegress(t *testing.T)   { propEnc.Regress(t); propBlind.Regress(t) }
func TestReplay(t *testing.T)    { _ = propEnc.Replay(t) || propBlind.Replay(t) }
func TestPropEnc(t *testing.T)   { propEnc.Run(t) }
func TestPropBlind(t *testing.T) { propBlind.Run(t) }
