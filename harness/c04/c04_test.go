// Package c04 decides property C04: no input makes a parser, decoder or
// accessor panic or hang.
package c04

import (
	"fmt"
	"math"
	"os"
	"strings"
	"testing"
	"time"

	"github.com/go-i2p/common/base32"
	"github.com/go-i2p/common/base64"
	"github.com/go-i2p/common/certificate"
	"github.com/go-i2p/common/data"
	"github.com/go-i2p/common/destination"
	"github.com/go-i2p/common/key_certificate"
	"github.com/go-i2p/common/keys_and_cert"
	"github.com/go-i2p/common/offline_signature"
	"github.com/go-i2p/common/router_identity"
	"github.com/go-i2p/common/router_info"
	"github.com/go-i2p/common/session_key"
	"github.com/go-i2p/common/session_tag"
	"github.com/go-i2p/common/signature"
	"pgregory.net/rapid"

	"verif/internal/ev"
	"verif/internal/gen"
	"verif/internal/lib"
	"verif/internal/model"
)

const rule = "(values returned without error are also handed to the exported package-level functions that take them: certificate type helpers, KeyCertificateFromCertificate, NewDestination, NewRouterIdentityFromKeysAndCert, OwnedRouterInfo, ValidatePtr, ValuesToMapping) (every 2-byte window of the fixed corpus of well-formed encodings set to 0xfffb..0xffff, 0x8000, 0x7fff, 0x0100, 0x00ff every byte to 0x00 / 0x80 / 0xff, and every truncation point, on every run) cases: (entry, type argument, bytes) over the 43 parser entry points plus 22 further byte-/string-consuming functions (key construction, decoders, constructors, mapping values); bytes are model encodings, encodings with every length/count field pushed to extremes, 1-2 structure-aware mutations, or arbitrary bytes up to 140 KiB; all 65,536 type codes plus -1, 65,536, MinInt, MaxInt swept through every type-taking function with four data shapes. On every accepted value all exported methods are called by reflection (argument-free always; with generated arguments where every parameter kind has a generator; returned library values are swept two levels deep). Oracle: every call returns (panics are caught per call and reported with the call path) within 20 s (re-run once with a 60 s limit before a hang is reported). Non-trivial: the parser accepted and >= 5 methods were invoked; distinct by (entry, type, input)."

func TestMain(m *testing.M) { ev.Main(m, "C04", rule) }

type Case = gen.Input

// extra byte-/string-consuming functions that are not parsers with a value
var extras = map[string]func(in []byte, typ int){
	"key_certificate.ConstructSigningPublicKeyByType": func(in []byte, typ int) {
		_, _ = key_certificate.ConstructSigningPublicKeyByType(in, typ)
	},
	"KeyCertificate.ConstructPublicKey": func(in []byte, typ int) {
		if kc, err := key_certificate.NewKeyCertificateWithTypes(7, typ&7); err == nil {
			_, _ = kc.ConstructPublicKey(in)
		}
		kc := key_certificate.KeyCertificate{CpkType: data.Integer{byte(typ >> 8), byte(typ)}, SpkType: data.Integer{0, 7}}
		_, _ = kc.ConstructPublicKey(in)
	},
	"KeyCertificate.ConstructSigningPublicKey": func(in []byte, typ int) {
		kc := key_certificate.KeyCertificate{SpkType: data.Integer{byte(typ >> 8), byte(typ)}, CpkType: data.Integer{0, 4}}
		_, _ = kc.ConstructSigningPublicKey(in)
		_ = kc.SignatureSize()
		_ = kc.CryptoSize()
		_ = kc.SigningPublicKeySize()
		_, _ = kc.CryptoPublicKeySize()
	},
	"data.ReadMappingValues": func(in []byte, typ int) {
		_, _, _ = data.ReadMappingValues(in, data.Integer{byte(typ >> 8), byte(typ)})
		_, _, _ = data.ReadMappingValues(in, data.Integer{})
	},
	"data.DecodeIntN": func(in []byte, _ int) { _, _ = data.DecodeIntN(in) },
	"data.HashData":   func(in []byte, _ int) { _ = data.HashData(in) },
	"data.NewI2PString": func(in []byte, _ int) {
		_, _ = data.NewI2PString(string(in))
		_, _ = data.ToI2PString(string(in))
	},
	"data.I2PString-methods": func(in []byte, _ int) {
		s := data.I2PString(in)
		_, _ = s.Data()
		_, _ = s.DataSafe()
		_, _ = s.Length()
		_ = s.IsValid()
	},
	"data.Integer-methods": func(in []byte, _ int) {
		i := data.Integer(in)
		_ = i.Int()
		_, _ = i.IntSafe()
		_, _ = i.UintSafe()
		_ = i.IsZero()
	},
	"data.GoMapToMapping": func(in []byte, _ int) {
		m := map[string]string{}
		for i := 0; i+1 < len(in) && i < 64; i += 2 {
			m[string(in[i:min(len(in), i+1+int(in[i])%3)])] = string(in[i+1 : min(len(in), i+1+int(in[i+1])%5)])
		}
		if mp, err := data.GoMapToMapping(m); err == nil {
			_ = mp.Data()
		}
	},
	"base32.Decode": func(in []byte, _ int) {
		s := string(in)
		_, _ = base32.DecodeString(s)
		_, _ = base32.DecodeStringNoPadding(s)
		_, _ = base32.DecodeStringSafe(s)
		_, _ = base32.DecodeStringSafeNoPadding(s)
	},
	"base64.Decode": func(in []byte, _ int) {
		_, _ = base64.DecodeString(string(in))
		_, _ = base64.DecodeStringSafe(string(in))
	},
	"baseNN.Encode": func(in []byte, _ int) {
		_ = base32.EncodeToString(in)
		_ = base32.EncodeToStringNoPadding(in)
		_, _ = base32.EncodeToStringSafe(in)
		_ = base64.EncodeToString(in)
		_, _ = base64.EncodeToStringSafe(in)
	},
	"certificate.NewCertificateWithType": func(in []byte, typ int) {
		if c, err := certificate.NewCertificateWithType(uint8(typ), in); err == nil {
			_ = c.Bytes()
			_ = c.RawBytes()
			_ = c.ExcessBytes()
			_, _ = certificate.GetSignatureTypeFromCertificate(*c)
			_, _ = certificate.GetCryptoTypeFromCertificate(*c)
			_, _ = key_certificate.KeyCertificateFromCertificate(c)
		}
		b := certificate.NewCertificateBuilder()
		b, _ = b.WithType(uint8(typ))
		if c, err := b.WithPayload(in).Build(); err == nil {
			_ = c.Bytes()
		}
	},
	"certificate.KeyTypes": func(in []byte, typ int) {
		o := 0
		if len(in) >= 2 {
			o = int(in[0])<<8 | int(in[1])
		}
		_, _ = certificate.BuildKeyTypePayload(typ, o)
		_, _ = certificate.BuildKeyTypePayload(o, typ)
		_, _ = key_certificate.NewKeyCertificateWithTypes(typ, o)
		_, _ = key_certificate.NewKeyCertificateWithTypes(o, typ)
		if b, err := certificate.NewCertificateBuilder().WithKeyTypes(typ, o); err == nil {
			_, _ = b.Build()
		}
	},
	"size-lookups": func(_ []byte, typ int) {
		_, _ = key_certificate.GetKeySizes(typ, typ)
		_, _ = key_certificate.GetSigningKeySize(typ)
		_, _ = key_certificate.GetCryptoKeySize(typ)
		_, _ = key_certificate.GetSignatureSize(typ)
		_, _ = signature.SignatureSize(typ)
		_ = offline_signature.SignatureSize(uint16(typ))
		_ = offline_signature.SigningPublicKeySize(uint16(typ))
	},
	"offline_signature.NewOfflineSignature": func(in []byte, typ int) {
		k := len(in) / 2
		if o, err := offline_signature.NewOfflineSignature(uint32(len(in)), uint16(typ), in[:k], in[k:], uint16(typ>>4)); err == nil {
			_ = o.Bytes()
			_, _ = o.VerifySignature(in[:min(32, len(in))])
		}
	},
	"OfflineSignature.VerifySignature": func(in []byte, typ int) {
		o, _, err := offline_signature.ReadOfflineSignature(in, uint16(typ))
		if err == nil {
			for _, n := range []int{0, 1, 31, 32, 33, 64, 128} {
				_, _ = o.VerifySignature(in[:min(n, len(in))])
			}
		}
	},
	"SetBytes": func(in []byte, _ int) {
		var sk session_key.SessionKey
		_ = sk.SetBytes(in)
		var st session_tag.SessionTag
		_ = st.SetBytes(in)
		var et session_tag.ECIESSessionTag
		_ = et.SetBytes(in)
	},
	"data.WrapErrors": func(in []byte, _ int) {
		var errs []error
		for i := 0; i < len(in)%5; i++ {
			errs = append(errs, fmt.Errorf("e%d", i))
		}
		_ = data.WrapErrors(errs)
	},
	"MappingValues.Add": func(in []byte, _ int) {
		mv := data.NewMappingValues(len(in) - 3)
		k := len(in) / 2
		mv, _ = mv.Add(string(in[:k]), string(in[k:]))
		_ = mv.Validate()
		if m, err := data.ValuesToMapping(mv); err == nil {
			_ = m.Data()
		}
	},
}

func extraNames() []string {
	var out []string
	for k := range extras {
		out = append(out, k)
	}
	// deterministic order
	for i := range out {
		for j := i + 1; j < len(out); j++ {
			if out[j] < out[i] {
				out[i], out[j] = out[j], out[i]
			}
		}
	}
	return out
}

// AddAddress mutates the receiver with a caller-supplied pointer (nil included);
// what later reads do with a nil address the caller put there is not a statement
// about parser input, so the sweep does not call it (noted in the evidence).
var mutators = map[string]bool{"AddAddress": true}

// timed runs f with the hang clause: 20 s, then once more with 60 s.
func timed(what string, f func() error) error {
	run := func(limit time.Duration) (error, bool) {
		done := make(chan error, 1)
		go func() {
			defer func() {
				if x := recover(); x != nil {
					done <- fmt.Errorf("panic in %s: %v", what, x)
				}
			}()
			done <- f()
		}()
		select {
		case err := <-done:
			return err, true
		case <-time.After(limit):
			return nil, false
		}
	}
	err, ok := run(20 * time.Second)
	if ok {
		return err
	}
	err, ok = run(60 * time.Second)
	if ok {
		return err // slow once, fine the second time: not a violation
	}
	// A call that never returns keeps spinning in its goroutine; shrinking would only start
	// more of them (each attempt costs 80 s and two busy cores). The case at hand is the
	// report: record it and end this shard.
	msg := fmt.Sprintf("%s did not return within 20 s and again not within 60 s (hang clause)", what)
	rec := ev.R()
	rec.Violation("nopanic", current, msg)
	rec.Flush()
	os.Exit(1)
	return fmt.Errorf("%s", msg)
}

// consumers hands a value a parser returned without error to the exported package-level
// functions that take such a value (they are no methods, so the sweep does not reach them).
func consumers(entry string, v any) (err error) {
	name := ""
	defer func() {
		if x := recover(); x != nil {
			err = fmt.Errorf("%s accepted the input; then %s on the returned value: panic: %v", entry, name, x)
		}
	}()
	try := func(n string, f func()) { name = n; f() }
	switch x := v.(type) {
	case *certificate.Certificate:
		if x != nil {
			try("certificate.GetSignatureTypeFromCertificate", func() { certificate.GetSignatureTypeFromCertificate(*x) })
			try("certificate.GetCryptoTypeFromCertificate", func() { certificate.GetCryptoTypeFromCertificate(*x) })
			try("key_certificate.KeyCertificateFromCertificate", func() { key_certificate.KeyCertificateFromCertificate(x) })
		}
	case certificate.Certificate:
		try("certificate.GetSignatureTypeFromCertificate", func() { certificate.GetSignatureTypeFromCertificate(x) })
		try("certificate.GetCryptoTypeFromCertificate", func() { certificate.GetCryptoTypeFromCertificate(x) })
		try("key_certificate.KeyCertificateFromCertificate", func() { key_certificate.KeyCertificateFromCertificate(&x) })
	case *key_certificate.KeyCertificate:
		if x != nil {
			try("certificate helpers on KeyCertificate.Certificate", func() {
				certificate.GetSignatureTypeFromCertificate(x.Certificate)
				certificate.GetCryptoTypeFromCertificate(x.Certificate)
			})
			try("router_info.OwnedRouterInfo", func() { router_info.OwnedRouterInfo(*x) })
		}
	case *keys_and_cert.KeysAndCert:
		if x != nil {
			try("destination.NewDestination", func() { destination.NewDestination(x) })
			try("router_identity.NewRouterIdentityFromKeysAndCert", func() { router_identity.NewRouterIdentityFromKeysAndCert(x) })
		}
	case *signature.Signature:
		try("signature.ValidatePtr", func() { signature.ValidatePtr(x) })
	case *data.Mapping:
		if x != nil {
			try("data.ValuesToMapping(Values())", func() { data.ValuesToMapping(x.Values()) })
		}
	}
	return nil
}

// current is the case being checked (for the hang report above).
var current Case

func check(c Case, r *ev.Rec) error {
	current = c
	in := c.Bytes()
	if f, ok := extras[c.Entry]; ok {
		r.Class("extra:" + c.Entry)
		err := timed(c.Entry, func() error { f(append([]byte{}, in...), c.Typ); return nil })
		if err == nil && len(in) > 0 {
			r.NonTrivial(c, []byte(c.Entry), []byte{byte(c.Typ), byte(c.Typ >> 8)}, in)
		}
		return err
	}
	e := lib.ByName(c.Entry)
	if e == nil {
		return nil
	}
	var res lib.Result
	if err := timed(e.Name, func() error { res = e.Parse(append([]byte{}, in...), c.Typ); return nil }); err != nil {
		return err
	}
	r.Class("source:" + c.Source)
	if !res.Accepted {
		r.Class("rejected")
		return nil
	}
	r.Class("accepted:" + e.Name)
	sw := &lib.Sweep{Args: lib.DefaultArgs(len(in) + c.Typ), MaxDepth: 2, SkipNames: mutators}
	if len(in) > 8192 {
		// RouterInfo.String is quadratic by construction (string concatenation); see DESIGN C04
		sw.SkipNames = map[string]bool{"String": true, "AddAddress": true}
	}
	if err := timed(e.Name+" method sweep", func() error { sw.Run(e.Name+"()", res.Value); return nil }); err != nil {
		return err
	}
	r.EvalN(sw.Calls)
	for _, s := range sw.SkippedList() {
		r.Note("method skipped (no generator for a parameter): " + s)
	}
	if len(sw.Panics) > 0 {
		return fmt.Errorf("%s accepted the input; then %s", e.Name, strings.Join(sw.Panics, "; "))
	}
	// exported functions that take the returned value as an argument
	if err := timed(e.Name+" consumers", func() error { return consumers(e.Name, res.Value) }); err != nil {
		return err
	}
	if sw.Calls >= 5 {
		r.NonTrivial(c, []byte(e.Name), []byte{byte(c.Typ), byte(c.Typ >> 8)}, in)
	}
	return nil
}

// extreme rewrites every hot field of a valid encoding to an extreme value.
func extreme(t *rapid.T, entries []string) Case {
	e := rapid.SampledFrom(entries).Draw(t, "entry")
	b, typ, hot := gen.ValidFor(t, e)
	b = append([]byte{}, b...)
	n := rapid.IntRange(1, 4).Draw(t, "nfields")
	desc := ""
	for i := 0; i < n && len(hot) > 0; i++ {
		p := rapid.SampledFrom(hot).Draw(t, "hot")
		if p < 0 || p >= len(b) {
			continue
		}
		v := rapid.SampledFrom([]byte{0xff, 0xfe, 0x80, 0x7f, 17, 16, 0}).Draw(t, "val")
		b[p] = v
		desc += fmt.Sprintf("set@%d=%02x ", p, v)
	}
	if rapid.IntRange(0, 3).Draw(t, "big") == 0 {
		b = append(b, model.Fill(rapid.SampledFrom([]int{300, 70000, 140000}).Draw(t, "pad"), 9)...)
		desc += "padded "
	}
	return Case{Entry: e, Typ: typ, Hex: ev.H(b), Source: "extreme", Mut: desc}
}

var weighted = lib.WeightedNames()
var allNames = append(append([]string{}, weighted...), extraNames()...)

func genCase(t *rapid.T) Case {
	switch rapid.IntRange(0, 9).Draw(t, "kind") {
	case 0, 1:
		return extreme(t, weighted)
	case 2: // many-pair mappings around MAX_MAPPING_PAIRS
		np := rapid.SampledFrom([]int{999, 1000, 1001, 1500}).Draw(t, "npairs")
		var pairs []model.Pair
		for i := 0; i < np; i++ {
			pairs = append(pairs, model.Pair{K: []byte{byte(i >> 8), byte(i), 'k'}, V: []byte{'v'}})
		}
		b := model.MustMapping(pairs)
		e := rapid.SampledFrom([]string{"data.ReadMapping", "data.NewMapping", "data.ReadMappingValues"}).Draw(t, "entry")
		return Case{Entry: e, Typ: len(b) - 2, Hex: ev.H(b), Source: "manypairs"}
	case 3:
		e := rapid.SampledFrom(extraNames()).Draw(t, "extra")
		var b []byte
		if rapid.Bool().Draw(t, "validish") {
			b, _, _ = gen.ValidFor(t, rapid.SampledFrom(lib.Names()).Draw(t, "shape"))
		} else {
			b = rapid.SliceOfN(rapid.Byte(), 0, 600).Draw(t, "raw")
		}
		typ := rapid.SampledFrom([]int{0, 1, 2, 3, 4, 5, 6, 7, 8, 9, 10, 11, 12, 255, 65535, 65536, -1, math.MaxInt, math.MinInt}).Draw(t, "typ")
		return Case{Entry: e, Typ: typ, Hex: ev.H(b), Source: "extra"}
	}
	return gen.InputG(t, allNames)
}

var prop = &ev.Prop[Case]{Sub: "nopanic", Quick: 120000, Thorough: 5000000, Gen: genCase, Check: check}

func TestRegress(t *testing.T) { prop.Regress(t) }
func TestReplay(t *testing.T)  { prop.Replay(t) }
func TestProp(t *testing.T)    { prop.Run(t) }

// TestEnumBoundaryFields: every 2-byte window of every well-formed encoding of the
// fixed corpus (all entry points) is set to each boundary value of a 16-bit length /
// count / type field, and every byte to 0x00, 0x80, 0xff: whatever field a position
// belongs to sees its extreme values deterministically on every run.
func TestEnumBoundaryFields(t *testing.T) {
	ev.Enumerate(t, "fixed-corpus-x-every-offset-x-boundary-values", true, func(shard, shards int, r *ev.Rec) error {
		words := []int{0xffff, 0xfffe, 0xfffd, 0xfffc, 0xfffb, 0x8000, 0x7fff, 0x0100, 0x00ff}
		n := 0
		for _, name := range lib.Names() {
			for _, fi := range gen.FixedInputs(name) {
				base := fi.Bytes()
				if len(base) > 1500 {
					continue
				}
				for p := 0; p < len(base); p++ {
					n++
					if n%shards != shard {
						continue
					}
					// the encoding cut at this position
					if err := prop.One(Case{Entry: name, Typ: fi.Typ, Hex: ev.H(base[:p]), Source: "enum-boundary", Mut: fmt.Sprintf("cut@%d", p)}); err != nil {
						return err
					}
					for _, w := range words {
						if p+1 >= len(base) {
							break
						}
						b := append([]byte{}, base...)
						b[p], b[p+1] = byte(w>>8), byte(w)
						if err := prop.One(Case{Entry: name, Typ: fi.Typ, Hex: ev.H(b), Source: "enum-boundary", Mut: fmt.Sprintf("word@%d=%04x", p, w)}); err != nil {
							return err
						}
					}
					for _, v := range []byte{0x00, 0x80, 0xff} {
						if base[p] == v {
							continue
						}
						b := append([]byte{}, base...)
						b[p] = v
						if err := prop.One(Case{Entry: name, Typ: fi.Typ, Hex: ev.H(b), Source: "enum-boundary", Mut: fmt.Sprintf("byte@%d=%02x", p, v)}); err != nil {
							return err
						}
					}
				}
			}
		}
		return nil
	})
}

// TestEnumTypeCodes: all 65,536 codes plus -1, 65,536, MinInt, MaxInt through
// every function that takes a type or size, four data shapes each.
func TestEnumTypeCodes(t *testing.T) {
	ev.Enumerate(t, "type-codes-65536+4", true, func(shard, shards int, r *ev.Rec) error {
		codes := make([]int, 0, 65540)
		for c := 0; c < 65536; c++ {
			codes = append(codes, c)
		}
		codes = append(codes, -1, 65536, math.MinInt, math.MaxInt)
		typed := []string{"signature.ReadSignature", "signature.NewSignature", "signature.NewSignatureFromBytes",
			"offline_signature.ReadOfflineSignature", "data.ReadInteger", "data.NewInteger"}
		typedExtra := []string{"key_certificate.ConstructSigningPublicKeyByType", "KeyCertificate.ConstructPublicKey",
			"KeyCertificate.ConstructSigningPublicKey", "certificate.KeyTypes", "size-lookups", "offline_signature.NewOfflineSignature",
			"certificate.NewCertificateWithType", "data.ReadMappingValues"}
		for i, code := range codes {
			if i%shards != shard {
				continue
			}
			want := 64
			if n, ok := model.SigLen[code]; ok {
				want = n
			}
			shapes := [][]byte{{}, model.Fill(max(want-1, 0), 3), model.Fill(want, 4), model.Fill(want+700, 5)}
			for _, sh := range shapes {
				for _, name := range typed {
					e := lib.ByName(name)
					if _, err := func() (res lib.Result, err error) {
						defer func() {
							if x := recover(); x != nil {
								err = fmt.Errorf("panic: %v", x)
							}
						}()
						return e.Parse(append([]byte{}, sh...), code), nil
					}(); err != nil {
						r.Violation("nopanic", Case{Entry: name, Typ: code, Hex: ev.H(sh), Source: "enum"}, err.Error())
						return fmt.Errorf("%s(type %d, %d bytes): %v", name, code, len(sh), err)
					}
				}
				for _, name := range typedExtra {
					if err := func() (err error) {
						defer func() {
							if x := recover(); x != nil {
								err = fmt.Errorf("panic: %v", x)
							}
						}()
						extras[name](append([]byte{}, sh...), code)
						return nil
					}(); err != nil {
						r.Violation("nopanic", Case{Entry: name, Typ: code, Hex: ev.H(sh), Source: "enum"}, err.Error())
						return fmt.Errorf("%s(type %d, %d bytes): %v", name, code, len(sh), err)
					}
				}
				r.EvalN(len(typed) + len(typedExtra))
			}
			if _, ok := model.SigLen[code]; ok {
				r.NonTrivialStr(fmt.Sprintf("type code %d through %d functions x 4 shapes", code, len(typed)+len(typedExtra)), "code", fmt.Sprint(code))
			}
		}
		return nil
	})
}

// FuzzNoPanic: coverage-guided search, all entries (byte 0 entry, bytes 1-2 type).
func FuzzNoPanic(f *testing.F) {
	names := append(lib.Names(), extraNames()...)
	for i, n := range names {
		f.Add([]byte{byte(i), 0, 7})
		for _, in := range gen.FixedInputs(n) {
			f.Add(append([]byte{byte(i), byte(in.Typ >> 8), byte(in.Typ)}, in.Bytes()...))
		}
	}
	// the extra functions get the parser seeds too (key construction, mapping values, ...)
	for i := len(lib.Names()); i < len(names); i++ {
		for _, n := range []string{"keys_and_cert.ReadKeysAndCert", "data.ReadMapping", "offline_signature.ReadOfflineSignature", "certificate.ReadCertificate"} {
			for _, in := range gen.FixedInputs(n)[:2] {
				f.Add(append([]byte{byte(i), 0, 7}, in.Bytes()...))
			}
		}
	}
	prop.Fuzz(f, func(b []byte) (Case, bool) {
		if len(b) < 3 || len(b) > 150000 {
			return Case{}, false
		}
		return Case{Entry: names[int(b[0])%len(names)], Typ: int(b[1])<<8 | int(b[2]), Hex: ev.H(b[3:]), Source: "fuzz"}, true
	})
}
