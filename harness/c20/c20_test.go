// Package c20 decides property C20: zero values and failed-parse results are
// safe to touch (no panic from any exported argument-free method; verification
// never reports success on them).
package c20

import (
	"fmt"
	"reflect"
	"strings"
	"testing"

	"pgregory.net/rapid"

	"verif/internal/ev"
	"verif/internal/gen"
	"verif/internal/lib"
)

const rule = "domain A (exhaustive): every exported named type of every package of /repo, found by scanning the sources at check time (generated file zz_types_gen_test.go), x every exported argument-free method of its pointer method set, on the zero value. domain B (generated): well-formed model encodings for each of the 43 parser entry points x every truncation point (all cuts up to 700 bytes, else a fixed stride) and 1-2 structure-aware mutations; plus complete, genuinely signed encodings that break one documented validation rule (zero expires, inner data below the minimum, reserved flag bits, no keys / entries / addresses, published = 0); whenever the parser rejects but hands back a value, the same methods are called on it. Oracle: no panic; Verify()/VerifySignature() never report success on such a value. Non-trivial: (type, method) pair invoked / rejected parse that returned a non-nil value with >= 1 method; distinct by pair name or (entry, input)."

func TestMain(m *testing.M) { ev.Main(m, "C20", rule) }

// checkVerifyNeverSucceeds inspects the result of a verify-style method.
func verifySucceeded(name string, out []reflect.Value) bool {
	base := name[strings.LastIndex(name, ".")+1:]
	if base != "Verify" && base != "VerifySignature" {
		return false
	}
	switch len(out) {
	case 1: // Verify() error
		return out[0].IsNil()
	case 2: // VerifySignature() (bool, error)
		if out[0].Kind() == reflect.Bool {
			return out[0].Bool()
		}
	}
	return false
}

type ZeroCase struct {
	Type string `json:"type"`
}

func checkZero(c ZeroCase, r *ev.Rec) error {
	var mk func() any
	for _, z := range zeroValues {
		if z.name == c.Type {
			mk = z.mk
		}
	}
	if mk == nil {
		return nil
	}
	var bad []string
	sw := &lib.Sweep{MaxDepth: 0, OnResult: func(path string, out []reflect.Value) {
		if verifySucceeded(path, out) {
			bad = append(bad, path+" reports success on the zero value")
		}
		r.NonTrivialStr(path, "pair", path)
	}}
	sw.Run(c.Type+"{}", mk())
	r.EvalN(sw.Calls)
	r.ClassN("zero:methods-called", sw.Calls)
	if len(sw.Panics) > 0 || len(bad) > 0 {
		return fmt.Errorf("zero value of %s: %s", c.Type, strings.Join(append(sw.Panics, bad...), "; "))
	}
	return nil
}

var propZero = &ev.Prop[ZeroCase]{Sub: "zero", Quick: 1, Thorough: 1,
	Gen: func(t *rapid.T) ZeroCase {
		return ZeroCase{Type: zeroValues[rapid.IntRange(0, len(zeroValues)-1).Draw(t, "i")].name}
	},
	Check: checkZero}

func TestEnumZero(t *testing.T) {
	ev.Enumerate(t, "zero-values-all-types-x-methods", false, func(_, _ int, r *ev.Rec) error {
		var firstErr error
		for _, z := range zeroValues {
			r.Class("zero:types")
			if err := propZero.One(ZeroCase{Type: z.name}); err != nil && firstErr == nil {
				firstErr = err
			}
		}
		return firstErr
	})
}

// ---------------------------------------------------------------------------
// domain B

type PartialCase struct {
	Entry string `json:"entry"`
	Typ   int    `json:"typ"`
	Hex   string `json:"hex"`
	Cut   int    `json:"cut"` // -1: use Hex as is
	How   string `json:"how"`
}

func checkPartialOne(e *lib.Entry, in []byte, typ int, c PartialCase, r *ev.Rec) error {
	res := e.Parse(append([]byte{}, in...), typ)
	if res.Accepted {
		r.Class("partial:accepted")
		return nil
	}
	if res.Value == nil {
		return nil
	}
	rv := reflect.ValueOf(res.Value)
	if rv.Kind() == reflect.Ptr && rv.IsNil() {
		r.Class("partial:nil-value")
		return nil
	}
	var bad []string
	sw := &lib.Sweep{MaxDepth: 1, OnResult: func(path string, out []reflect.Value) {
		if verifySucceeded(path, out) {
			bad = append(bad, path+" reports success on a value returned together with an error")
		}
	}}
	sw.Run(e.Name+"()!err", res.Value)
	r.EvalN(sw.Calls)
	r.Class("partial:value-with-error")
	if len(sw.Panics) > 0 || len(bad) > 0 {
		return fmt.Errorf("%s rejected %d bytes (%v) and returned a value; then %s", e.Name, len(in), res.Err, strings.Join(append(sw.Panics, bad...), "; "))
	}
	if sw.Calls >= 1 {
		r.NonTrivial(map[string]any{"entry": e.Name, "typ": typ, "rejected_input_hex": ev.H(in), "how": c.How}, []byte(e.Name), in)
	}
	return nil
}

func checkPartial(c PartialCase, r *ev.Rec) error {
	e := lib.ByName(c.Entry)
	if e == nil {
		return nil
	}
	in := ev.UnH(c.Hex)
	if c.Cut >= 0 {
		if c.Cut > len(in) {
			return nil
		}
		return checkPartialOne(e, in[:c.Cut], c.Typ, c, r)
	}
	// all truncation points of the encoding
	step := 1
	if len(in) > 700 {
		step = len(in)/700 + 1
	}
	for k := 0; k < len(in); k += step {
		if err := checkPartialOne(e, in[:k], c.Typ, c, r); err != nil {
			cc := c
			cc.Cut = k
			return fmt.Errorf("cut %d: %w", k, err)
		}
	}
	for k := max(0, len(in)-70); k < len(in); k++ {
		if err := checkPartialOne(e, in[:k], c.Typ, c, r); err != nil {
			return fmt.Errorf("cut %d: %w", k, err)
		}
	}
	return checkPartialOne(e, in, c.Typ, c, r)
}

var weighted = lib.WeightedNames()

// signedInvalid: a complete, genuinely signed encoding that breaks one rule the
// structure's validator documents (zero expires offset, inner data below the minimum,
// reserved flag bit, no keys, no entries, no addresses, published = 0). A parser that
// validates after parsing returns an error for these; what it returns along with the
// error must not verify.
func signedInvalid(t *rapid.T) PartialCase {
	switch rapid.IntRange(0, 3).Draw(t, "sikind") {
	case 0:
		s := gen.ELSG(t, "els", []int{7, 11})
		if s.InnerLen > 3000 {
			s.InnerLen = 100
		}
		rule := rapid.SampledFrom([]string{"expires = 0", "inner data of 60 bytes", "inner data of 0 bytes", "reserved flag bit 3", "reserved flag bit 15"}).Draw(t, "rule")
		switch rule {
		case "expires = 0":
			s.Expires = 0
		case "inner data of 60 bytes":
			s.InnerLen = 60
		case "inner data of 0 bytes":
			s.InnerLen = 0
		case "reserved flag bit 3":
			s.Flags |= 8
		default:
			s.Flags |= 0x8000
		}
		m, _, _ := s.Build()
		return PartialCase{Entry: "encrypted_leaseset.ReadEncryptedLeaseSet", Hex: ev.H(m.Encode()), Cut: -1, How: "signed and complete, violates: " + rule}
	case 1:
		s := gen.LS2G(t, "ls2", []int{7, 11, 0})
		rule := rapid.SampledFrom([]string{"reserved flag bit 3", "reserved flag bit 15", "no encryption keys", "expires = 0"}).Draw(t, "rule")
		switch rule {
		case "reserved flag bit 3":
			s.Header.Flags |= 8
		case "reserved flag bit 15":
			s.Header.Flags |= 0x8000
		case "no encryption keys":
			s.Keys = nil
		default:
			s.Header.Expires = 0
		}
		m, _, _ := s.Build()
		return PartialCase{Entry: "lease_set2.ReadLeaseSet2", Hex: ev.H(m.Encode()), Cut: -1, How: "signed and complete, violates: " + rule}
	case 2:
		s := gen.MetaG(t, "meta", []int{7, 11, 0})
		rule := rapid.SampledFrom([]string{"reserved flag bit 3", "no entries", "expires = 0"}).Draw(t, "rule")
		switch rule {
		case "reserved flag bit 3":
			s.Header.Flags |= 8
		case "no entries":
			s.Entries = nil
		default:
			s.Header.Expires = 0
		}
		m, _, _ := s.Build()
		return PartialCase{Entry: "meta_leaseset.ReadMetaLeaseSet", Hex: ev.H(m.Encode()), Cut: -1, How: "signed and complete, violates: " + rule}
	}
	s := gen.RouterInfoG(t, "ri", []int{7})
	rule := rapid.SampledFrom([]string{"no addresses", "published = 0"}).Draw(t, "rule")
	if rule == "no addresses" {
		s.Addrs = nil
	} else {
		s.Published = 0
	}
	m, _ := s.Build()
	return PartialCase{Entry: "router_info.ReadRouterInfo", Hex: ev.H(m.Encode()), Cut: -1, How: "signed and complete, violates: " + rule}
}

var propPartial = &ev.Prop[PartialCase]{Sub: "partial", Quick: 4000, Thorough: 80000,
	Gen: func(t *rapid.T) PartialCase {
		if rapid.IntRange(0, 5).Draw(t, "signedinvalid") == 0 {
			return signedInvalid(t)
		}
		e := rapid.SampledFrom(weighted).Draw(t, "entry")
		b, typ, hot := gen.ValidFor(t, e)
		how := "truncations"
		if rapid.IntRange(0, 2).Draw(t, "mutate") == 0 {
			var d string
			b, d = gen.Mutate(t, b, hot)
			how = "mutated " + d + " + truncations"
		}
		return PartialCase{Entry: e, Typ: typ, Hex: ev.H(b), Cut: -1, How: how}
	}, Check: checkPartial}

func TestRegress(t *testing.T) { propZero.Regress(t); propPartial.Regress(t) }
func TestReplay(t *testing.T)  { _ = propZero.Replay(t) || propPartial.Replay(t) }
func TestPropPartial(t *testing.T) {
	ev.R().Floor("partial:value-with-error", 1000)
	propPartial.Run(t)
}
