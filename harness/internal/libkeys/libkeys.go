// Package libkeys turns model values into the objects the library's
// constructors take (go-i2p/crypto key types, certificates, identities).
package libkeys

import (
	"fmt"

	"github.com/go-i2p/common/certificate"
	"github.com/go-i2p/common/destination"
	"github.com/go-i2p/common/key_certificate"
	"github.com/go-i2p/common/keys_and_cert"
	"github.com/go-i2p/common/router_identity"
	"github.com/go-i2p/crypto/curve25519"
	"github.com/go-i2p/crypto/dsa"
	"github.com/go-i2p/crypto/ecdsa"
	"github.com/go-i2p/crypto/ed25519"
	elgamal "github.com/go-i2p/crypto/elg"
	"github.com/go-i2p/crypto/types"

	"verif/internal/model"
)

// PubKey builds an encryption public key object from wire bytes.
func PubKey(encType int, b []byte) (types.ReceivingPublicKey, error) {
	switch encType {
	case 0:
		if len(b) != 256 {
			return nil, fmt.Errorf("elgamal key of %d bytes", len(b))
		}
		var k elgamal.ElgPublicKey
		copy(k[:], b)
		return k, nil
	case 4, 5, 6, 7:
		k := make(curve25519.Curve25519PublicKey, len(b))
		copy(k, b)
		return k, nil
	}
	return nil, fmt.Errorf("no library key object for crypto type %d", encType)
}

// SigPub builds a signing public key object from wire bytes.
func SigPub(sigType int, b []byte) (types.SigningPublicKey, error) {
	switch sigType {
	case 0:
		var k dsa.DSAPublicKey
		if len(b) != len(k) {
			return nil, fmt.Errorf("dsa key of %d bytes", len(b))
		}
		copy(k[:], b)
		return k, nil
	case 1:
		var k ecdsa.ECP256PublicKey
		if len(b) != len(k) {
			return nil, fmt.Errorf("p256 key of %d bytes", len(b))
		}
		copy(k[:], b)
		return k, nil
	case 2:
		var k ecdsa.ECP384PublicKey
		if len(b) != len(k) {
			return nil, fmt.Errorf("p384 key of %d bytes", len(b))
		}
		copy(k[:], b)
		return k, nil
	case 7, 8, 11:
		k := make(ed25519.Ed25519PublicKey, len(b))
		copy(k, b)
		return k, nil
	}
	return nil, fmt.Errorf("no library key object for signing type %d", sigType)
}

// SigPriv builds the library's signing private key for a model key pair.
func SigPriv(k *model.SignKey) (types.SigningPrivateKey, error) {
	switch k.Type {
	case 0:
		p, err := dsa.NewDSAPrivateKey(k.Priv)
		if err != nil {
			return nil, err
		}
		return p, nil
	case 1:
		return ecdsa.NewECP256PrivateKey(k.Priv)
	case 7, 11:
		p, err := ed25519.NewEd25519PrivateKey(k.Priv)
		if err != nil {
			return nil, err
		}
		return &p, nil
	}
	return nil, fmt.Errorf("no library private key for signing type %d", k.Type)
}

// Cert builds a certificate object through the public constructor.
func Cert(c model.Cert) (*certificate.Certificate, error) {
	return certificate.NewCertificateWithType(uint8(c.Type), c.Payload)
}

// KeyCert builds the key certificate of a KEY-certificate identity through
// the parser-free route (constructor + KeyCertificateFromCertificate).
func KeyCert(id model.Ident) (*key_certificate.KeyCertificate, error) {
	if id.Cert.Type != 5 {
		return nil, fmt.Errorf("identity has no KEY certificate")
	}
	c, err := Cert(id.Cert)
	if err != nil {
		return nil, err
	}
	return key_certificate.KeyCertificateFromCertificate(c)
}

// KAC builds a KeysAndCert through NewKeysAndCert.
func KAC(id model.Ident) (*keys_and_cert.KeysAndCert, error) {
	kc, err := KeyCert(id)
	if err != nil {
		return nil, err
	}
	pk, err := PubKey(id.EncType, id.Enc)
	if err != nil {
		return nil, err
	}
	sk, err := SigPub(id.SigType, id.Sig)
	if err != nil {
		return nil, err
	}
	return keys_and_cert.NewKeysAndCert(kc, pk, append([]byte{}, id.Pad...), sk)
}

// KACPair builds the identity twice through NewKeysAndCert from one key table: the
// slice-typed arguments of the two calls (X25519-family encryption key, Ed25519-family
// signing key, padding) are adjacent windows of a single buffer whose capacity runs on
// past them - the shape keys have when they come out of a key file, a key table or a
// received message. intact() reports whether the table still holds what was put there:
// a library that appends to such a slice writes into its neighbours.
func KACPair(id model.Ident) (a, b *keys_and_cert.KeysAndCert, intact func() error, err error) {
	const spare = 1024
	parts := [][]byte{id.Enc, id.Enc, id.Sig, id.Sig, id.Pad, id.Pad}
	total := 0
	for _, p := range parts {
		total += len(p)
	}
	table := make([]byte, total+spare)
	for i := range table {
		table[i] = 0xA5
	}
	win := make([][]byte, len(parts))
	off := 0
	for i, p := range parts {
		copy(table[off:], p)
		win[i] = table[off : off+len(p)] // capacity deliberately left open
		off += len(p)
	}
	orig := append([]byte{}, table...)
	intact = func() error {
		for i := range table {
			if table[i] != orig[i] {
				where := "the spare capacity behind the table"
				if i < total {
					where = "a neighbouring key or padding"
				}
				return fmt.Errorf("the key table handed to NewKeysAndCert was overwritten at offset %d of %d (%s): the library wrote through a key or padding slice into the caller's memory", i, total, where)
			}
		}
		return nil
	}
	mk := func(enc, sig, pad []byte) (*keys_and_cert.KeysAndCert, error) {
		kc, err := KeyCert(id)
		if err != nil {
			return nil, err
		}
		var pk types.ReceivingPublicKey
		switch id.EncType {
		case 4, 5, 6, 7:
			pk = curve25519.Curve25519PublicKey(enc)
		default:
			if pk, err = PubKey(id.EncType, enc); err != nil {
				return nil, err
			}
		}
		var sk types.SigningPublicKey
		switch id.SigType {
		case 7, 8, 11:
			sk = ed25519.Ed25519PublicKey(sig)
		default:
			if sk, err = SigPub(id.SigType, sig); err != nil {
				return nil, err
			}
		}
		return keys_and_cert.NewKeysAndCert(kc, pk, pad, sk)
	}
	if a, err = mk(win[0], win[2], win[4]); err != nil {
		return nil, nil, nil, err
	}
	if b, err = mk(win[1], win[3], win[5]); err != nil {
		return nil, nil, nil, err
	}
	return a, b, intact, nil
}

// Dest builds a Destination through the constructors.
func Dest(id model.Ident) (*destination.Destination, error) {
	k, err := KAC(id)
	if err != nil {
		return nil, err
	}
	return destination.NewDestination(k)
}

// RouterIdent builds a RouterIdentity through NewRouterIdentity.
func RouterIdent(id model.Ident) (*router_identity.RouterIdentity, error) {
	c, err := Cert(id.Cert)
	if err != nil {
		return nil, err
	}
	pk, err := PubKey(id.EncType, id.Enc)
	if err != nil {
		return nil, err
	}
	sk, err := SigPub(id.SigType, id.Sig)
	if err != nil {
		return nil, err
	}
	return router_identity.NewRouterIdentity(pk, sk, c, append([]byte{}, id.Pad...))
}

// ParsedDest parses the model encoding (the other way to obtain a library
// Destination; works for NULL certificates too).
func ParsedDest(id model.Ident) (destination.Destination, error) {
	d, rem, err := destination.ReadDestination(id.Encode())
	if err != nil {
		return d, err
	}
	if len(rem) != 0 {
		return d, fmt.Errorf("ReadDestination left %d bytes", len(rem))
	}
	return d, nil
}
