package model

import (
	"errors"
	"fmt"
)

// ---------------------------------------------------------------------------
// key-type tables (common.md, "SigningPublicKey", "PublicKey", "Signature")

// SigPubLen: signing public key length by signing type.
var SigPubLen = map[int]int{0: 128, 1: 64, 2: 96, 3: 132, 4: 256, 5: 384, 6: 512, 7: 32, 8: 32, 11: 32}

// SigLen: signature length by signing type.
var SigLen = map[int]int{0: 40, 1: 64, 2: 96, 3: 132, 4: 256, 5: 384, 6: 512, 7: 64, 8: 64, 11: 64}

// EncPubLen: encryption public key length by crypto type (5-7: MLKEM hybrids,
// 32-byte X25519 part inside a destination / leaseset key header per 0.9.67).
var EncPubLen = map[int]int{0: 256, 1: 64, 2: 96, 3: 132, 4: 32, 5: 32, 6: 32, 7: 32}

// ---------------------------------------------------------------------------
// Certificate

type Cert struct {
	Type    int
	Payload []byte
}

func (c Cert) Encode() []byte {
	out := []byte{byte(c.Type), byte(len(c.Payload) >> 8), byte(len(c.Payload))}
	return append(out, c.Payload...)
}

func DecodeCert(b []byte) (Cert, int, error) {
	if len(b) < 3 {
		return Cert{}, 0, errors.New("certificate: fewer than 3 bytes")
	}
	n := GetU16(b[1:])
	if len(b) < 3+n {
		return Cert{}, 0, fmt.Errorf("certificate: declared %d payload bytes, have %d", n, len(b)-3)
	}
	return Cert{Type: int(b[0]), Payload: append([]byte{}, b[3:3+n]...)}, 3 + n, nil
}

// KeyCert builds a KEY certificate payload with optional excess bytes.
func KeyCert(sigType, encType int, extra []byte) Cert {
	p := append(U16(sigType), U16(encType)...)
	return Cert{Type: 5, Payload: append(p, extra...)}
}

// ---------------------------------------------------------------------------
// KeysAndCert / Destination / RouterIdentity

type Ident struct {
	SigType int
	EncType int
	Enc     []byte // encryption public key (EncPubLen[EncType] bytes), start of the 384-byte block
	Pad     []byte // bytes between the two keys
	Sig     []byte // signing public key, end of the 384-byte block
	Cert    Cert
}

// Types returns the key types a certificate implies (NULL => ElGamal + DSA).
func (c Cert) Types() (sigType, encType int, err error) {
	switch c.Type {
	case 0:
		return 0, 0, nil
	case 5:
		if len(c.Payload) < 4 {
			return 0, 0, errors.New("KEY certificate payload shorter than 4 bytes")
		}
		return GetU16(c.Payload), GetU16(c.Payload[2:]), nil
	}
	return 0, 0, fmt.Errorf("certificate type %d carries no key types", c.Type)
}

func (id Ident) Encode() []byte {
	out := make([]byte, 0, 384+3+len(id.Cert.Payload))
	out = append(out, id.Enc...)
	out = append(out, id.Pad...)
	out = append(out, id.Sig...)
	return append(out, id.Cert.Encode()...)
}

// DecodeIdent is strict about the layout; it supports the key types whose
// keys fit inline (signing <= 128 bytes, encryption <= 256 bytes).
func DecodeIdent(b []byte) (Ident, int, error) {
	if len(b) < 387 {
		return Ident{}, 0, errors.New("identity: fewer than 387 bytes")
	}
	c, n, err := DecodeCert(b[384:])
	if err != nil {
		return Ident{}, 0, err
	}
	st, et, err := c.Types()
	if err != nil {
		return Ident{}, 0, err
	}
	sl, ok1 := SigPubLen[st]
	el, ok2 := EncPubLen[et]
	if !ok1 || !ok2 {
		return Ident{}, 0, fmt.Errorf("identity: unknown key types sig=%d enc=%d", st, et)
	}
	if sl > 128 || el > 256 {
		return Ident{}, 0, fmt.Errorf("identity: key types sig=%d enc=%d do not fit inline", st, et)
	}
	id := Ident{SigType: st, EncType: et, Cert: c}
	id.Enc = append([]byte{}, b[:el]...)
	id.Pad = append([]byte{}, b[el:384-sl]...)
	id.Sig = append([]byte{}, b[384-sl:384]...)
	return id, 384 + n, nil
}

// ---------------------------------------------------------------------------
// Lease, Lease2

type Lease struct {
	GW     [32]byte
	Tunnel uint32
	EndMs  uint64
}

func (l Lease) Encode() []byte {
	out := append([]byte{}, l.GW[:]...)
	out = append(out, U32(l.Tunnel)...)
	return append(out, U64(l.EndMs)...)
}

type Lease2 struct {
	GW     [32]byte
	Tunnel uint32
	End    uint32
}

func (l Lease2) Encode() []byte {
	out := append([]byte{}, l.GW[:]...)
	out = append(out, U32(l.Tunnel)...)
	return append(out, U32(l.End)...)
}

// ---------------------------------------------------------------------------
// OfflineSignature

type Offline struct {
	Expires uint32
	TType   int
	TKey    []byte
	Sig     []byte // by the destination key, length SigLen[destination sig type]
}

func (o Offline) Encode() []byte {
	out := append(U32(o.Expires), U16(o.TType)...)
	out = append(out, o.TKey...)
	return append(out, o.Sig...)
}

// SignedPart is what the destination key signs.
func (o Offline) SignedPart() []byte {
	out := append(U32(o.Expires), U16(o.TType)...)
	return append(out, o.TKey...)
}

func DecodeOffline(b []byte, destSigType int) (Offline, int, error) {
	if len(b) < 6 {
		return Offline{}, 0, errors.New("offline signature: short header")
	}
	o := Offline{Expires: GetU32(b), TType: GetU16(b[4:])}
	kl, ok := SigPubLen[o.TType]
	if !ok {
		return Offline{}, 0, fmt.Errorf("offline signature: unknown transient type %d", o.TType)
	}
	sl, ok := SigLen[destSigType]
	if !ok {
		return Offline{}, 0, fmt.Errorf("offline signature: unknown destination type %d", destSigType)
	}
	if len(b) < 6+kl+sl {
		return Offline{}, 0, errors.New("offline signature: truncated")
	}
	o.TKey = append([]byte{}, b[6:6+kl]...)
	o.Sig = append([]byte{}, b[6+kl:6+kl+sl]...)
	return o, 6 + kl + sl, nil
}

// ---------------------------------------------------------------------------
// LeaseSet (legacy)

type LeaseSet struct {
	Dest   Ident
	EncKey []byte // 256
	SigKey []byte // revocation key, SigPubLen[dest sig type]
	Leases []Lease
	Sig    []byte
}

func (ls LeaseSet) SignedPart() []byte {
	out := ls.Dest.Encode()
	out = append(out, ls.EncKey...)
	out = append(out, ls.SigKey...)
	out = append(out, byte(len(ls.Leases)))
	for _, l := range ls.Leases {
		out = append(out, l.Encode()...)
	}
	return out
}

func (ls LeaseSet) Encode() []byte { return append(ls.SignedPart(), ls.Sig...) }

func DecodeLeaseSet(b []byte) (LeaseSet, int, error) {
	var ls LeaseSet
	id, n, err := DecodeIdent(b)
	if err != nil {
		return ls, 0, err
	}
	ls.Dest = id
	p := n
	sl := SigPubLen[id.SigType]
	if len(b) < p+256+sl+1 {
		return ls, 0, errors.New("leaseset: truncated keys")
	}
	ls.EncKey = append([]byte{}, b[p:p+256]...)
	p += 256
	ls.SigKey = append([]byte{}, b[p:p+sl]...)
	p += sl
	num := int(b[p])
	p++
	if num > 16 {
		return ls, 0, fmt.Errorf("leaseset: %d leases", num)
	}
	if len(b) < p+44*num+SigLen[id.SigType] {
		return ls, 0, errors.New("leaseset: truncated leases/signature")
	}
	for i := 0; i < num; i++ {
		var l Lease
		copy(l.GW[:], b[p:])
		l.Tunnel = GetU32(b[p+32:])
		l.EndMs = GetU64(b[p+36:])
		ls.Leases = append(ls.Leases, l)
		p += 44
	}
	ls.Sig = append([]byte{}, b[p:p+SigLen[id.SigType]]...)
	p += SigLen[id.SigType]
	return ls, p, nil
}

// ---------------------------------------------------------------------------
// LeaseSet2 header + LeaseSet2

type EncKey struct {
	Type int
	Len  int // declared length (normally len(Data))
	Data []byte
}

type Header struct {
	Dest      Ident
	Published uint32
	Expires   uint16
	Flags     uint16
	Offline   *Offline
}

func (h Header) Encode() []byte {
	out := h.Dest.Encode()
	out = append(out, U32(h.Published)...)
	out = append(out, U16(int(h.Expires))...)
	out = append(out, U16(int(h.Flags))...)
	if h.Offline != nil {
		out = append(out, h.Offline.Encode()...)
	}
	return out
}

func decodeHeader(b []byte) (Header, int, error) {
	var h Header
	id, n, err := DecodeIdent(b)
	if err != nil {
		return h, 0, err
	}
	h.Dest = id
	if len(b) < n+8 {
		return h, 0, errors.New("header: truncated")
	}
	h.Published = GetU32(b[n:])
	h.Expires = uint16(GetU16(b[n+4:]))
	h.Flags = uint16(GetU16(b[n+6:]))
	p := n + 8
	if h.Flags&1 != 0 {
		o, on, err := DecodeOffline(b[p:], id.SigType)
		if err != nil {
			return h, 0, err
		}
		h.Offline = &o
		p += on
	}
	return h, p, nil
}

// OuterSigType is the type of the key that signs the structure.
func (h Header) OuterSigType() int {
	if h.Offline != nil {
		return h.Offline.TType
	}
	return h.Dest.SigType
}

type LS2 struct {
	Header
	Options    []Pair
	RawOptions []byte // when set: written instead of the encoding of Options
	Keys       []EncKey
	Leases     []Lease2
	Sig        []byte
}

func (l LS2) body() []byte {
	out := l.Header.Encode()
	if l.RawOptions != nil {
		out = append(out, l.RawOptions...)
	} else {
		out = append(out, MustMapping(l.Options)...)
	}
	out = append(out, byte(len(l.Keys)))
	for _, k := range l.Keys {
		out = append(out, U16(k.Type)...)
		out = append(out, U16(k.Len)...)
		out = append(out, k.Data...)
	}
	out = append(out, byte(len(l.Leases)))
	for _, x := range l.Leases {
		out = append(out, x.Encode()...)
	}
	return out
}

// SignedPart: store type 3 prepended to everything before the signature.
func (l LS2) SignedPart() []byte { return append([]byte{3}, l.body()...) }
func (l LS2) Encode() []byte     { return append(l.body(), l.Sig...) }

// LS2Extent is the extent the count bytes of a LeaseSet2 declare, whatever the counts
// are (DecodeLS2 refuses more than 16 leases: the count limit is part of the layout
// agreement, but not of the question "how many bytes does this header claim").
func LS2Extent(b []byte) (int, error) {
	lenientLeases = true
	defer func() { lenientLeases = false }()
	_, n, err := DecodeLS2(b)
	return n, err
}

var lenientLeases bool

func DecodeLS2(b []byte) (LS2, int, error) {
	var l LS2
	h, p, err := decodeHeader(b)
	if err != nil {
		return l, 0, err
	}
	l.Header = h
	pairs, n, _, err := DecodeMapping(b[p:])
	if err != nil {
		return l, 0, err
	}
	l.Options = pairs
	p += n
	if len(b) < p+1 {
		return l, 0, errors.New("ls2: no key count")
	}
	nk := int(b[p])
	p++
	for i := 0; i < nk; i++ {
		if len(b) < p+4 {
			return l, 0, errors.New("ls2: truncated key header")
		}
		k := EncKey{Type: GetU16(b[p:]), Len: GetU16(b[p+2:])}
		p += 4
		if len(b) < p+k.Len {
			return l, 0, errors.New("ls2: truncated key")
		}
		k.Data = append([]byte{}, b[p:p+k.Len]...)
		p += k.Len
		l.Keys = append(l.Keys, k)
	}
	if len(b) < p+1 {
		return l, 0, errors.New("ls2: no lease count")
	}
	nl := int(b[p])
	p++
	if nl > 16 && !lenientLeases {
		return l, 0, fmt.Errorf("ls2: %d leases", nl)
	}
	for i := 0; i < nl; i++ {
		if len(b) < p+40 {
			return l, 0, errors.New("ls2: truncated lease")
		}
		var x Lease2
		copy(x.GW[:], b[p:])
		x.Tunnel = GetU32(b[p+32:])
		x.End = GetU32(b[p+36:])
		l.Leases = append(l.Leases, x)
		p += 40
	}
	sl, ok := SigLen[h.OuterSigType()]
	if !ok || len(b) < p+sl {
		return l, 0, errors.New("ls2: truncated or unknown signature")
	}
	l.Sig = append([]byte{}, b[p:p+sl]...)
	return l, p + sl, nil
}

// ---------------------------------------------------------------------------
// MetaLeaseSet in the layout the library documents (meta_leaseset_struct.go):
// entries are hash | type(1) | expires(4) | cost(1) | Mapping, no revocations.

type MetaEntry struct {
	Hash    [32]byte
	Type    uint8
	Expires uint32
	Cost    uint8
	Props   []Pair
}

type MetaLS struct {
	Header
	Options []Pair
	Entries []MetaEntry
	Sig     []byte
}

func (m MetaLS) body() []byte {
	out := m.Header.Encode()
	out = append(out, MustMapping(m.Options)...)
	out = append(out, byte(len(m.Entries)))
	for _, e := range m.Entries {
		out = append(out, e.Hash[:]...)
		out = append(out, e.Type)
		out = append(out, U32(e.Expires)...)
		out = append(out, e.Cost)
		out = append(out, MustMapping(e.Props)...)
	}
	return out
}

func (m MetaLS) SignedPart() []byte { return append([]byte{7}, m.body()...) }
func (m MetaLS) Encode() []byte     { return append(m.body(), m.Sig...) }

func DecodeMetaLS(b []byte) (MetaLS, int, error) {
	var m MetaLS
	h, p, err := decodeHeader(b)
	if err != nil {
		return m, 0, err
	}
	m.Header = h
	pairs, n, _, err := DecodeMapping(b[p:])
	if err != nil {
		return m, 0, err
	}
	m.Options = pairs
	p += n
	if len(b) < p+1 {
		return m, 0, errors.New("meta: no entry count")
	}
	ne := int(b[p])
	p++
	for i := 0; i < ne; i++ {
		if len(b) < p+38 {
			return m, 0, errors.New("meta: truncated entry")
		}
		var e MetaEntry
		copy(e.Hash[:], b[p:])
		e.Type = b[p+32]
		e.Expires = GetU32(b[p+33:])
		e.Cost = b[p+37]
		p += 38
		pr, n, _, err := DecodeMapping(b[p:])
		if err != nil {
			return m, 0, err
		}
		e.Props = pr
		p += n
		m.Entries = append(m.Entries, e)
	}
	sl, ok := SigLen[h.OuterSigType()]
	if !ok || len(b) < p+sl {
		return m, 0, errors.New("meta: truncated or unknown signature")
	}
	m.Sig = append([]byte{}, b[p:p+sl]...)
	return m, p + sl, nil
}

// MetaLeaseSet as common.md defines it: MetaLease = hash(32) | flags(3) |
// cost(1) | end_date(4); then numr(1) and numr revocation hashes.
type SpecMetaLease struct {
	Hash  [32]byte
	Flags [3]byte // low 4 bits of the last byte: store type
	Cost  uint8
	End   uint32
}

type SpecMetaLS struct {
	Header
	Options     []Pair
	Leases      []SpecMetaLease
	Revocations [][32]byte
	Sig         []byte
}

func (m SpecMetaLS) body() []byte {
	out := m.Header.Encode()
	out = append(out, MustMapping(m.Options)...)
	out = append(out, byte(len(m.Leases)))
	for _, e := range m.Leases {
		out = append(out, e.Hash[:]...)
		out = append(out, e.Flags[:]...)
		out = append(out, e.Cost)
		out = append(out, U32(e.End)...)
	}
	out = append(out, byte(len(m.Revocations)))
	for _, r := range m.Revocations {
		out = append(out, r[:]...)
	}
	return out
}
func (m SpecMetaLS) SignedPart() []byte { return append([]byte{7}, m.body()...) }
func (m SpecMetaLS) Encode() []byte     { return append(m.body(), m.Sig...) }

// ---------------------------------------------------------------------------
// EncryptedLeaseSet

type ELS struct {
	SigType   int
	Blinded   []byte
	Published uint32
	Expires   uint16
	Flags     uint16
	Offline   *Offline
	Inner     []byte
	Sig       []byte
}

func (e ELS) body() []byte {
	out := append(U16(e.SigType), e.Blinded...)
	out = append(out, U32(e.Published)...)
	out = append(out, U16(int(e.Expires))...)
	out = append(out, U16(int(e.Flags))...)
	if e.Offline != nil {
		out = append(out, e.Offline.Encode()...)
	}
	out = append(out, U16(len(e.Inner))...)
	return append(out, e.Inner...)
}
func (e ELS) SignedPart() []byte { return append([]byte{5}, e.body()...) }
func (e ELS) Encode() []byte     { return append(e.body(), e.Sig...) }
func (e ELS) OuterSigType() int {
	if e.Offline != nil {
		return e.Offline.TType
	}
	return e.SigType
}

func DecodeELS(b []byte) (ELS, int, error) {
	var e ELS
	if len(b) < 2 {
		return e, 0, errors.New("els: short")
	}
	e.SigType = GetU16(b)
	kl, ok := SigPubLen[e.SigType]
	if !ok {
		return e, 0, fmt.Errorf("els: unknown sig type %d", e.SigType)
	}
	p := 2
	if len(b) < p+kl+8 {
		return e, 0, errors.New("els: truncated header")
	}
	e.Blinded = append([]byte{}, b[p:p+kl]...)
	p += kl
	e.Published = GetU32(b[p:])
	e.Expires = uint16(GetU16(b[p+4:]))
	e.Flags = uint16(GetU16(b[p+6:]))
	p += 8
	if e.Flags&1 != 0 {
		o, n, err := DecodeOffline(b[p:], e.SigType)
		if err != nil {
			return e, 0, err
		}
		e.Offline = &o
		p += n
	}
	if len(b) < p+2 {
		return e, 0, errors.New("els: no inner length")
	}
	il := GetU16(b[p:])
	p += 2
	if len(b) < p+il {
		return e, 0, errors.New("els: truncated inner data")
	}
	e.Inner = append([]byte{}, b[p:p+il]...)
	p += il
	sl, ok := SigLen[e.OuterSigType()]
	if !ok || len(b) < p+sl {
		return e, 0, errors.New("els: truncated or unknown signature")
	}
	e.Sig = append([]byte{}, b[p:p+sl]...)
	return e, p + sl, nil
}

// ---------------------------------------------------------------------------
// RouterAddress, RouterInfo

type RouterAddr struct {
	Cost       uint8
	Expiration uint64
	Style      []byte
	Options    []Pair
	RawOptions []byte // when set: written instead of the encoding of Options (malformed mappings)
}

func (a RouterAddr) Encode() []byte {
	out := append([]byte{a.Cost}, U64(a.Expiration)...)
	out = append(out, EncodeString(a.Style)...)
	if a.RawOptions != nil {
		return append(out, a.RawOptions...)
	}
	return append(out, MustMapping(a.Options)...)
}

func DecodeRouterAddr(b []byte) (RouterAddr, int, error) {
	var a RouterAddr
	if len(b) < 10 {
		return a, 0, errors.New("router address: short")
	}
	a.Cost = b[0]
	a.Expiration = GetU64(b[1:])
	s, rest, err := readStr(b[9:])
	if err != nil {
		return a, 0, err
	}
	a.Style = append([]byte{}, s...)
	p := len(b) - len(rest)
	pairs, n, _, err := DecodeMapping(b[p:])
	if err != nil {
		return a, 0, err
	}
	a.Options = pairs
	return a, p + n, nil
}

type RouterInfo struct {
	Ident     Ident
	Published uint64
	Addrs     []RouterAddr
	PeerSize  uint8 // always 0
	Options   []Pair
	Sig       []byte
}

func (ri RouterInfo) SignedPart() []byte {
	out := ri.Ident.Encode()
	out = append(out, U64(ri.Published)...)
	out = append(out, byte(len(ri.Addrs)))
	for _, a := range ri.Addrs {
		out = append(out, a.Encode()...)
	}
	out = append(out, ri.PeerSize)
	return append(out, MustMapping(ri.Options)...)
}
func (ri RouterInfo) Encode() []byte { return append(ri.SignedPart(), ri.Sig...) }

func DecodeRouterInfo(b []byte) (RouterInfo, int, error) {
	var ri RouterInfo
	id, p, err := DecodeIdent(b)
	if err != nil {
		return ri, 0, err
	}
	ri.Ident = id
	if len(b) < p+9 {
		return ri, 0, errors.New("router info: truncated")
	}
	ri.Published = GetU64(b[p:])
	na := int(b[p+8])
	p += 9
	for i := 0; i < na; i++ {
		a, n, err := DecodeRouterAddr(b[p:])
		if err != nil {
			return ri, 0, err
		}
		ri.Addrs = append(ri.Addrs, a)
		p += n
	}
	if len(b) < p+1 {
		return ri, 0, errors.New("router info: no peer size")
	}
	ri.PeerSize = b[p]
	p++
	if ri.PeerSize != 0 {
		return ri, 0, errors.New("router info: non-zero peer size")
	}
	pairs, n, _, err := DecodeMapping(b[p:])
	if err != nil {
		return ri, 0, err
	}
	ri.Options = pairs
	p += n
	sl := SigLen[id.SigType]
	if len(b) < p+sl {
		return ri, 0, errors.New("router info: truncated signature")
	}
	ri.Sig = append([]byte{}, b[p:p+sl]...)
	return ri, p + sl, nil
}
