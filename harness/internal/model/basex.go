package model

import "strings"

// Bit-level I2P base32 / base64 (independent of encoding/base32|64).

const Alpha32 = "abcdefghijklmnopqrstuvwxyz234567"
const Alpha64 = "ABCDEFGHIJKLMNOPQRSTUVWXYZabcdefghijklmnopqrstuvwxyz0123456789-~"

func encodeBits(b []byte, alpha string, bits uint, group int, pad bool) string {
	var sb strings.Builder
	var acc uint32
	var nb uint
	for _, x := range b {
		acc = acc<<8 | uint32(x)
		nb += 8
		for nb >= bits {
			nb -= bits
			sb.WriteByte(alpha[(acc>>nb)&(1<<bits-1)])
		}
		acc &= 1<<nb - 1
	}
	if nb > 0 {
		sb.WriteByte(alpha[(acc<<(bits-nb))&(1<<bits-1)])
	}
	if pad {
		for sb.Len()%group != 0 {
			sb.WriteByte('=')
		}
	}
	return sb.String()
}

func decodeBits(s string, alpha string, bits uint) ([]byte, bool) {
	var out []byte
	var acc uint32
	var nb uint
	s = strings.TrimRight(s, "=")
	for i := 0; i < len(s); i++ {
		v := strings.IndexByte(alpha, s[i])
		if v < 0 {
			return nil, false
		}
		acc = acc<<bits | uint32(v)
		nb += bits
		if nb >= 8 {
			nb -= 8
			out = append(out, byte(acc>>nb))
			acc &= 1<<nb - 1
		}
	}
	return out, true
}

// Base32 encodes without padding (the .b32.i2p form).
func Base32(b []byte) string { return encodeBits(b, Alpha32, 5, 8, false) }

// Base64 encodes with padding.
func Base64(b []byte) string { return encodeBits(b, Alpha64, 6, 4, true) }

// UnBase64 decodes I2P base64 text.
func UnBase64(s string) ([]byte, bool) { return decodeBits(s, Alpha64, 6) }
