// Package model is an independent implementation of the I2P common-structures
// wire layout, written from common.md (0.9.66/0.9.67). It imports nothing
// from go-i2p/common; it is the reference the library is compared against.
package model

import (
	"errors"
	"fmt"
	"sort"
)

// Pair is one key/value entry of a Mapping (raw bytes, no length prefix).
type Pair struct {
	K []byte
	V []byte
}

// PairsFromMap returns the entries of m sorted bytewise by key (the canonical
// order the specification requires for signed mappings).
func PairsFromMap(m map[string]string) []Pair {
	keys := make([]string, 0, len(m))
	for k := range m {
		keys = append(keys, k)
	}
	sort.Strings(keys)
	out := make([]Pair, 0, len(m))
	for _, k := range keys {
		out = append(out, Pair{K: []byte(k), V: []byte(m[k])})
	}
	return out
}

// MappingBodyLen is the number of bytes following the two-byte size field.
func MappingBodyLen(pairs []Pair) int {
	n := 0
	for _, p := range pairs {
		n += 1 + len(p.K) + 1 + 1 + len(p.V) + 1
	}
	return n
}

// EncodeMapping encodes pairs in the given order. It fails when a string
// exceeds 255 bytes or the body exceeds 65535 bytes.
func EncodeMapping(pairs []Pair) ([]byte, error) {
	n := MappingBodyLen(pairs)
	if n > 65535 {
		return nil, fmt.Errorf("mapping body %d > 65535", n)
	}
	out := make([]byte, 0, 2+n)
	out = append(out, byte(n>>8), byte(n))
	for _, p := range pairs {
		if len(p.K) > 255 || len(p.V) > 255 {
			return nil, errors.New("string longer than 255 bytes")
		}
		out = append(out, byte(len(p.K)))
		out = append(out, p.K...)
		out = append(out, '=')
		out = append(out, byte(len(p.V)))
		out = append(out, p.V...)
		out = append(out, ';')
	}
	return out, nil
}

// MustMapping is EncodeMapping for callers that generate in-range input.
func MustMapping(pairs []Pair) []byte {
	b, err := EncodeMapping(pairs)
	if err != nil {
		panic(err)
	}
	return b
}

// DecodeMapping is strict: the pairs must tile the declared size exactly.
// Duplicate keys are reported through dup (the specification forbids them in
// signed structures but the layout itself is decodable).
func DecodeMapping(b []byte) (pairs []Pair, consumed int, dup bool, err error) {
	if len(b) < 2 {
		return nil, 0, false, errors.New("mapping: short size field")
	}
	n := int(b[0])<<8 | int(b[1])
	if len(b) < 2+n {
		return nil, 0, false, fmt.Errorf("mapping: declared %d bytes, have %d", n, len(b)-2)
	}
	body := b[2 : 2+n]
	seen := map[string]bool{}
	for len(body) > 0 {
		var k, v []byte
		if k, body, err = readStr(body); err != nil {
			return nil, 0, dup, fmt.Errorf("mapping key: %w", err)
		}
		if len(body) == 0 || body[0] != '=' {
			return nil, 0, dup, errors.New("mapping: expected '='")
		}
		body = body[1:]
		if v, body, err = readStr(body); err != nil {
			return nil, 0, dup, fmt.Errorf("mapping value: %w", err)
		}
		if len(body) == 0 || body[0] != ';' {
			return nil, 0, dup, errors.New("mapping: expected ';'")
		}
		body = body[1:]
		if seen[string(k)] {
			dup = true
		}
		seen[string(k)] = true
		pairs = append(pairs, Pair{K: k, V: v})
	}
	return pairs, 2 + n, dup, nil
}

func readStr(b []byte) (s, rest []byte, err error) {
	if len(b) == 0 {
		return nil, nil, errors.New("string: no length byte")
	}
	n := int(b[0])
	if len(b) < 1+n {
		return nil, nil, fmt.Errorf("string: declared %d, have %d", n, len(b)-1)
	}
	return b[1 : 1+n], b[1+n:], nil
}

// EncodeString returns the length-prefixed form (len(s) <= 255).
func EncodeString(s []byte) []byte {
	return append([]byte{byte(len(s))}, s...)
}

// U16, U32, U64 big-endian helpers (written out, not encoding/binary, to stay
// independent of the helper the library itself uses).
func U16(v int) []byte { return []byte{byte(v >> 8), byte(v)} }
func U32(v uint32) []byte {
	return []byte{byte(v >> 24), byte(v >> 16), byte(v >> 8), byte(v)}
}
func U64(v uint64) []byte {
	return []byte{byte(v >> 56), byte(v >> 48), byte(v >> 40), byte(v >> 32), byte(v >> 24), byte(v >> 16), byte(v >> 8), byte(v)}
}
func GetU16(b []byte) int { return int(b[0])<<8 | int(b[1]) }
func GetU32(b []byte) uint32 {
	return uint32(b[0])<<24 | uint32(b[1])<<16 | uint32(b[2])<<8 | uint32(b[3])
}
func GetU64(b []byte) uint64 {
	return uint64(GetU32(b))<<32 | uint64(GetU32(b[4:]))
}

// Fill expands a seed into n pseudo-random bytes (xorshift; deterministic,
// no RNG state outside the arguments).
// DegenerateBase: the 256 largest seeds stand for degenerate contents instead of a
// pseudo-random fill - the byte strings a sanity check or a "trim" might single out:
// +0 all zero, +1 all 0xff, +2 only the first byte set, +3 only the last byte set (0x01),
// +4 only the top bit of the last byte, +5 0x01 repeated, +6 ascending, +7 only a byte
// in the middle set, others: the low byte of the seed repeated.
const DegenerateBase = ^uint64(0) - 255

func Fill(n int, seed uint64) []byte {
	b := make([]byte, n)
	if seed >= DegenerateBase {
		if n == 0 {
			return b
		}
		switch k := byte(seed - DegenerateBase); k {
		case 0:
		case 1:
			for i := range b {
				b[i] = 0xff
			}
		case 2:
			b[0] = 1
		case 3:
			b[n-1] = 1
		case 4:
			b[n-1] = 0x80
		case 5:
			for i := range b {
				b[i] = 1
			}
		case 6:
			for i := range b {
				b[i] = byte(i)
			}
		case 7:
			b[n/2] = 0x40
		default:
			for i := range b {
				b[i] = k
			}
		}
		return b
	}
	x := seed*0x9E3779B97F4A7C15 | 1
	for i := range b {
		x ^= x << 13
		x ^= x >> 7
		x ^= x << 17
		b[i] = byte(x >> 23)
	}
	return b
}
