package model

import (
	"crypto"
	"crypto/dsa"
	"crypto/ecdsa"
	"crypto/ed25519"
	"crypto/elliptic"
	"crypto/rand"
	"crypto/sha1"
	"crypto/sha256"
	"crypto/sha512"
	"encoding/hex"
	"math/big"
)

// I2P DSA domain parameters (cryptography specification, "DSA"); fixed for the
// whole network.
var (
	dsaP, _ = new(big.Int).SetString("9c05b2aa960d9b97b8931963c9cc9e8c3026e9b8ed92fad0a69cc886d5bf8015fcadae31a0ad18fab3f01b00a358de237655c4964afaa2b337e96ad316b9fb1cc564b5aec5b69a9ff6c3e4548707fef8503d91dd8602e867e6d35d2235c1869ce2479c3b9d5401de04e0727fb33d6511285d4cf29538d9e3b6051f5b22cc1c93", 16)
	dsaQ, _ = new(big.Int).SetString("a5dfc28fef4ca1e286744cd8eed9d29d684046b7", 16)
	dsaG, _ = new(big.Int).SetString("0c1f4d27d40093b429e962d7223824e0bbc47e7c832a39236fc683af84889581075ff9082ed32353d4374d7301cda1d23c431f4698599dda02451824ff369752593647cc3ddc197de985e43d136cdcfc6bd5409cd2f450821142a5e6f8eb1c3ab5d0484b8129fcf17bce4f7f33321c3cb3dbb14a905e7b2b3e93be4708cbcc82", 16)
)

// SignKey is a key pair of one I2P signing type, derived from a seed.
type SignKey struct {
	Type int
	Pub  []byte // wire form
	Priv []byte // wire form of the private key as go-i2p/crypto expects it (see PrivForLibrary)
	ed   ed25519.PrivateKey
	ec   *ecdsa.PrivateKey
	ds   *dsa.PrivateKey
}

func curveFor(t int) elliptic.Curve {
	switch t {
	case 1:
		return elliptic.P256()
	case 2:
		return elliptic.P384()
	case 3:
		return elliptic.P521()
	}
	return nil
}

func leftPad(b []byte, n int) []byte {
	if len(b) >= n {
		return b[len(b)-n:]
	}
	out := make([]byte, n)
	copy(out[n-len(b):], b)
	return out
}

// NewSignKey derives a key pair of signing type t (0,1,2,3,7,8,11) from seed.
func NewSignKey(t int, seed uint64) *SignKey {
	k := &SignKey{Type: t}
	switch t {
	case 7, 8, 11:
		k.ed = ed25519.NewKeyFromSeed(Fill(32, seed^0xed25519))
		k.Pub = append([]byte{}, k.ed[32:]...)
		k.Priv = append([]byte{}, k.ed...)
	case 1, 2, 3:
		c := curveFor(t)
		n := c.Params().N
		d := new(big.Int).SetBytes(Fill((c.Params().BitSize+7)/8+8, seed^0xec))
		d.Mod(d, new(big.Int).Sub(n, big.NewInt(1)))
		d.Add(d, big.NewInt(1))
		x, y := c.ScalarBaseMult(d.Bytes())
		k.ec = &ecdsa.PrivateKey{PublicKey: ecdsa.PublicKey{Curve: c, X: x, Y: y}, D: d}
		sz := (c.Params().BitSize + 7) / 8
		k.Pub = append(leftPad(x.Bytes(), sz), leftPad(y.Bytes(), sz)...)
		k.Priv = leftPad(d.Bytes(), sz)
	case 0:
		x := new(big.Int).SetBytes(Fill(28, seed^0xd5a))
		x.Mod(x, new(big.Int).Sub(dsaQ, big.NewInt(1)))
		x.Add(x, big.NewInt(1))
		y := new(big.Int).Exp(dsaG, x, dsaP)
		k.ds = &dsa.PrivateKey{PublicKey: dsa.PublicKey{Parameters: dsa.Parameters{P: dsaP, Q: dsaQ, G: dsaG}, Y: y}, X: x}
		k.Pub = leftPad(y.Bytes(), 128)
		k.Priv = leftPad(x.Bytes(), 20)
	default:
		return nil
	}
	return k
}

func hashFor(t int, msg []byte) []byte {
	switch t {
	case 0:
		h := sha1.Sum(msg)
		return h[:]
	case 1:
		h := sha256.Sum256(msg)
		return h[:]
	case 2:
		h := sha512.Sum384(msg)
		return h[:]
	case 3:
		h := sha512.Sum512(msg)
		return h[:]
	}
	return nil
}

// Sign produces a wire-format signature over msg.
func (k *SignKey) Sign(msg []byte) []byte {
	switch k.Type {
	case 7, 11:
		return ed25519.Sign(k.ed, msg)
	case 8:
		h := sha512.Sum512(msg)
		s, err := k.ed.Sign(rand.Reader, h[:], &ed25519.Options{Hash: crypto.SHA512})
		if err != nil {
			panic(err)
		}
		return s
	case 1, 2, 3:
		r, s, err := ecdsa.Sign(rand.Reader, k.ec, hashFor(k.Type, msg))
		if err != nil {
			panic(err)
		}
		sz := (k.ec.Curve.Params().BitSize + 7) / 8
		return append(leftPad(r.Bytes(), sz), leftPad(s.Bytes(), sz)...)
	case 0:
		r, s, err := dsa.Sign(rand.Reader, k.ds, hashFor(0, msg))
		if err != nil {
			panic(err)
		}
		return append(leftPad(r.Bytes(), 20), leftPad(s.Bytes(), 20)...)
	}
	return nil
}

// Verify is the independent verifier: signing type t, wire-format public key
// and signature, message msg. Unknown or unimplemented types never verify.
func Verify(t int, pub, msg, sig []byte) bool {
	if len(pub) != SigPubLen[t] || len(sig) != SigLen[t] || len(pub) == 0 {
		return false
	}
	switch t {
	case 7, 11:
		return ed25519.Verify(ed25519.PublicKey(pub), msg, sig)
	case 8:
		h := sha512.Sum512(msg)
		return ed25519.VerifyWithOptions(ed25519.PublicKey(pub), h[:], sig, &ed25519.Options{Hash: crypto.SHA512}) == nil
	case 1, 2, 3:
		c := curveFor(t)
		sz := (c.Params().BitSize + 7) / 8
		x := new(big.Int).SetBytes(pub[:sz])
		y := new(big.Int).SetBytes(pub[sz:])
		if !c.IsOnCurve(x, y) {
			return false
		}
		r := new(big.Int).SetBytes(sig[:sz])
		s := new(big.Int).SetBytes(sig[sz:])
		return ecdsa.Verify(&ecdsa.PublicKey{Curve: c, X: x, Y: y}, hashFor(t, msg), r, s)
	case 0:
		y := new(big.Int).SetBytes(pub)
		r := new(big.Int).SetBytes(sig[:20])
		s := new(big.Int).SetBytes(sig[20:])
		return dsa.Verify(&dsa.PublicKey{Parameters: dsa.Parameters{P: dsaP, Q: dsaQ, G: dsaG}, Y: y}, hashFor(0, msg), r, s)
	}
	return false
}

// ElgPub returns a value-valid ElGamal public key (2 <= y < p-1 for the 2048
// bit MODP group, whose top byte is 0xff): top byte below 0x80, low byte >= 2.
func ElgPub(seed uint64) []byte {
	b := Fill(256, seed^0xe19)
	b[0] &= 0x7f
	if b[255] < 2 {
		b[255] = 2
	}
	return b
}

// DSAPubValueValid returns 128 bytes that are a value-valid DSA public key
// (2 <= y < p) without being a real key (top byte below p's 0x9c).
func DSAPubValueValid(seed uint64) []byte {
	b := Fill(128, seed^0xd5a0)
	b[0] %= 0x9c
	if b[127] < 2 {
		b[127] = 2
	}
	return b
}

func hexOf(b []byte) string { return hex.EncodeToString(b) }
