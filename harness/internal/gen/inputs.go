package gen

import (
	"encoding/hex"
	"fmt"

	"pgregory.net/rapid"

	"verif/internal/model"
)

// Input is a self-contained parser input: entry point, type argument, bytes.
type Input struct {
	Entry  string `json:"entry"`
	Typ    int    `json:"typ"`
	Hex    string `json:"hex"`
	Source string `json:"source"` // valid | mutated | arbitrary
	Mut    string `json:"mut,omitempty"`
}

func (i Input) Bytes() []byte { return unhex(i.Hex) }

var knownSigTypes = []int{0, 1, 2, 3, 4, 5, 6, 7, 8, 11}
var oddTypes = []int{-1, 9, 10, 12, 20, 21, 255, 65279, 65280, 65534, 65535, 65536, 1 << 30}

func sigTypeArg(t *rapid.T) int {
	if rapid.IntRange(0, 4).Draw(t, "oddtype") == 0 {
		return rapid.SampledFrom(oddTypes).Draw(t, "typ")
	}
	return rapid.SampledFrom(knownSigTypes).Draw(t, "typ")
}

func certBytes(t *rapid.T) ([]byte, []int) {
	switch rapid.IntRange(0, 3).Draw(t, "certkind") {
	case 0:
		return model.Cert{Type: 0}.Encode(), []int{0, 1, 2}
	case 1:
		st := rapid.SampledFrom(append(append([]int{}, knownSigTypes...), 9, 12, 65535)).Draw(t, "sig")
		et := rapid.SampledFrom([]int{0, 1, 2, 3, 4, 5, 6, 7, 255, 65535}).Draw(t, "enc")
		extra := model.Fill(rapid.SampledFrom([]int{0, 0, 1, 4, 40}).Draw(t, "extra"), 11)
		return model.KeyCert(st, et, extra).Encode(), []int{0, 1, 2, 3, 4, 5, 6}
	default:
		ct := rapid.SampledFrom([]int{1, 2, 3, 4, 5, 6, 255}).Draw(t, "ctype")
		n := rapid.SampledFrom([]int{0, 1, 3, 4, 40, 72, 300}).Draw(t, "plen")
		return model.Cert{Type: ct, Payload: model.Fill(n, 5)}.Encode(), []int{0, 1, 2}
	}
}

func identHot() []int {
	return []int{0, 31, 32, 255, 256, 351, 352, 383, 384, 385, 386, 387, 388, 389, 390}
}

// ValidFor draws a well-formed encoding suited to entry (plus its type
// argument and a list of "hot" offsets: length, count and type fields).
func ValidFor(t *rapid.T, entry string) (b []byte, typ int, hot []int) {
	switch entry {
	case "data.ReadInteger", "data.NewInteger":
		typ = rapid.IntRange(1, 8).Draw(t, "size")
		if rapid.IntRange(0, 5).Draw(t, "oddsize") == 0 {
			typ = rapid.IntRange(-2, 10).Draw(t, "size")
		}
		n := typ
		if n < 0 {
			n = 0
		}
		return rapid.SliceOfN(rapid.Byte(), n, n).Draw(t, "int"), typ, nil
	case "data.NewIntegerFromBytes":
		return rapid.SliceOfN(rapid.Byte(), 1, 8).Draw(t, "int"), 0, nil
	case "data.ReadDate", "data.NewDate":
		return rapid.SliceOfN(rapid.Byte(), 8, 8).Draw(t, "date"), 0, nil
	case "data.ReadHash", "data.NewHashFromSlice", "session_key.ReadSessionKey", "session_key.NewSessionKey",
		"session_tag.ReadSessionTag", "session_tag.NewSessionTag", "session_tag.NewSessionTagFromBytes":
		return model.Fill(32, rapid.Uint64().Draw(t, "seed")), 0, nil
	case "session_tag.ReadECIESSessionTag", "session_tag.NewECIESSessionTag", "session_tag.NewECIESSessionTagFromBytes":
		return model.Fill(8, rapid.Uint64().Draw(t, "seed")), 0, nil
	case "data.ReadI2PString", "data.NewI2PStringFromBytes":
		s := smallStr(t, "str", 0)
		return model.EncodeString(s), 0, []int{0}
	case "data.ReadMapping", "data.NewMapping":
		return model.MustMapping(wireOrder(t, "map-order", Options(t, "map", 6)).Build()), 0, []int{0, 1, 2}
	case "certificate.ReadCertificate":
		b, hot = certBytes(t)
		return b, 0, hot
	case "key_certificate.NewKeyCertificate":
		st := rapid.SampledFrom(append(append([]int{}, knownSigTypes...), 9, 65535)).Draw(t, "sig")
		et := rapid.SampledFrom([]int{0, 1, 4, 5, 255}).Draw(t, "enc")
		extra := model.Fill(rapid.SampledFrom([]int{0, 0, 1, 4, 40}).Draw(t, "extra"), 12)
		return model.KeyCert(st, et, extra).Encode(), 0, []int{0, 1, 2, 3, 4, 5, 6}
	case "keys_and_cert.ReadKeysAndCert", "destination.ReadDestination", "destination.NewDestinationFromBytes",
		"router_identity.ReadRouterIdentity", "router_identity.NewRouterIdentityFromBytes", "lease_set.ReadDestinationFromLeaseSet":
		id, _ := Ident(t, "id", []int{7, 7, 11, 0, 1, 2, 8}, []int{4, 0, 5}).Build()
		return id.Encode(), 0, identHot()
	case "keys_and_cert.ReadKeysAndCertElgAndEd25519":
		id, _ := Ident(t, "id", []int{7, 7, 7, 11, 8, 1}, []int{0, 0, 4}).Build()
		return id.Encode(), 0, identHot()
	case "keys_and_cert.ReadKeysAndCertX25519AndEd25519":
		id, _ := Ident(t, "id", []int{7, 7, 7, 11, 8, 1}, []int{4, 4, 0}).Build()
		return id.Encode(), 0, identHot()
	case "signature.ReadSignature", "signature.NewSignature", "signature.NewSignatureFromBytes":
		typ = sigTypeArg(t)
		n, ok := model.SigLen[typ]
		if !ok {
			n = 64
		}
		return model.Fill(n, rapid.Uint64().Draw(t, "seed")), typ, nil
	case "offline_signature.ReadOfflineSignature":
		typ = rapid.SampledFrom([]int{7, 7, 11, 0, 1, 2, 8, 3, 4}).Draw(t, "desttype")
		o := OfflineG(t, "off", []int{7, 11, 0, 1, 2, 8, 3, 4, 5, 6})
		o.Forge = 1
		off, _ := o.Build(typ, nil)
		return off.Encode(), typ, []int{0, 3, 4, 5}
	case "lease.ReadLease", "lease.NewLeaseFromBytes":
		return model.Fill(44, rapid.Uint64().Draw(t, "seed")), 0, nil
	case "lease.ReadLease2", "lease.NewLease2FromBytes":
		return model.Fill(40, rapid.Uint64().Draw(t, "seed")), 0, nil
	case "lease_set.ReadLeaseSet":
		ls, _ := LeaseSetParseG(t, "ls").Build()
		n := len(ls.Dest.Encode())
		return ls.Encode(), 0, append(identHot(), n, n+255, n+256, n+256+len(ls.SigKey), n+256+len(ls.SigKey)+1)
	case "lease_set2.ReadLeaseSet2":
		spec := LS2G(t, "ls2", nil)
		spec.Options = wireOrder(t, "ls2-opt", spec.Options)
		if rapid.IntRange(0, 15).Draw(t, "manyleases") == 0 {
			// a lease count beyond the limit of 16 with that many leases present (the
			// library refuses these; whoever accepts them must still frame them by the count)
			for n := rapid.IntRange(17, 40).Draw(t, "nleases"); len(spec.Leases) < n; {
				spec.Leases = append(spec.Leases, Lease2Spec{Seed: uint64(len(spec.Leases)) + 1, Tunnel: 7, End: 1800000000})
			}
		}
		ls, _, _ := spec.Build()
		return ls.Encode(), 0, hotHeader(ls.Header, len(model.MustMapping(ls.Options)))
	case "meta_leaseset.ReadMetaLeaseSet":
		spec := MetaG(t, "meta", nil)
		spec.Options = wireOrder(t, "meta-opt", spec.Options)
		for i := range spec.Entries {
			spec.Entries[i].Props = wireOrder(t, "meta-props", spec.Entries[i].Props)
		}
		ls, _, _ := spec.Build()
		return ls.Encode(), 0, hotHeader(ls.Header, len(model.MustMapping(ls.Options)))
	case "encrypted_leaseset.ReadEncryptedLeaseSet":
		e, _, _ := ELSG(t, "els", nil).Build()
		n := 2 + len(e.Blinded)
		hot = []int{0, 1, n, n + 3, n + 4, n + 5, n + 6, n + 7, n + 8, n + 9}
		return e.Encode(), 0, hot
	case "router_address.ReadRouterAddress":
		aspec := AddrG(t, "addr")
		aspec.Options = wireOrder(t, "addr-opt", aspec.Options)
		a := aspec.Build()
		n := 9 + 1 + len(a.Style)
		return a.Encode(), 0, []int{0, 1, 8, 9, n, n + 1, n + 2}
	case "router_info.ReadRouterInfo":
		rspec := RouterInfoG(t, "ri", nil)
		rspec.Options = wireOrder(t, "ri-opt", rspec.Options)
		for i := range rspec.Addrs {
			rspec.Addrs[i].Options = wireOrder(t, "ri-addr-opt", rspec.Addrs[i].Options)
		}
		ri, _ := rspec.Build()
		n := len(ri.Ident.Encode())
		enc := ri.Encode()
		ps := n + 8 + 1 // offset of peer_size
		for _, a := range ri.Addrs {
			ps += len(a.Encode())
		}
		hot = append(identHot(), n, n+7, n+8, n+9, n+10, n+17, n+18, ps, ps+1, ps+2)
		if rapid.IntRange(0, 7).Draw(t, "peers") == 0 {
			// the layout with peers present: peer_size = k followed by k 32-byte hashes
			// (the specification keeps the count byte and says it is always zero)
			k := rapid.IntRange(1, 3).Draw(t, "npeers")
			out := append([]byte{}, enc[:ps]...)
			out = append(out, byte(k))
			out = append(out, model.Fill(32*k, uint64(k)+9)...)
			enc = append(out, enc[ps+1:]...)
		}
		return enc, 0, hot
	}
	return rapid.SliceOfN(rapid.Byte(), 0, 64).Draw(t, "raw"), 0, nil
}

// wireOrder: the parsers accept option pairs in any order (the specification asks
// signers to sort); one input in four carries its pairs reversed or rotated, signed
// as such.
func wireOrder(t *rapid.T, label string, p Pairs) Pairs {
	if len(p) < 2 || rapid.IntRange(0, 3).Draw(t, label+"-unsorted") != 0 {
		return p
	}
	out := make(Pairs, len(p))
	for i := range p {
		out[len(p)-1-i] = p[i]
	}
	if k := rapid.IntRange(0, len(p)-1).Draw(t, label+"-rot"); k > 0 {
		out = append(append(Pairs{}, out[k:]...), out[:k]...)
	}
	return out
}

func hotHeader(h model.Header, optLen int) []int {
	n := len(h.Dest.Encode())
	hl := len(h.Encode())
	hot := append(identHot(), n, n+3, n+4, n+5, n+6, n+7, hl, hl+1, hl+optLen, hl+optLen+1, hl+optLen+2, hl+optLen+3, hl+optLen+4)
	if h.Offline != nil {
		hot = append(hot, n+8, n+11, n+12, n+13)
	}
	return hot
}

// Mutate applies one structure-aware mutation.
func Mutate(t *rapid.T, b []byte, hot []int) ([]byte, string) {
	b = append([]byte{}, b...)
	pos := func() int {
		if len(b) == 0 {
			return 0
		}
		if len(hot) > 0 && rapid.IntRange(0, 2).Draw(t, "usehot") > 0 {
			p := rapid.SampledFrom(hot).Draw(t, "hot")
			if p >= 0 && p < len(b) {
				return p
			}
		}
		if rapid.IntRange(0, 3).Draw(t, "tailpos") == 0 {
			lo := len(b) - 80
			if lo < 0 {
				lo = 0
			}
			return rapid.IntRange(lo, len(b)-1).Draw(t, "pos")
		}
		return rapid.IntRange(0, len(b)-1).Draw(t, "pos")
	}
	kind := rapid.SampledFrom([]string{"setbyte", "setbyte", "bitflip", "word+-", "word=", "truncate", "truncate-tail", "append", "insert", "delete", "zero-run"}).Draw(t, "mut")
	if len(b) == 0 {
		kind = "append"
	}
	switch kind {
	case "setbyte":
		p := pos()
		v := rapid.SampledFrom([]byte{0, 1, 2, 5, 7, 11, 16, 17, 0x7f, 0x80, 0xfe, 0xff}).Draw(t, "val")
		b[p] = v
		return b, fmt.Sprintf("setbyte@%d=%02x", p, v)
	case "bitflip":
		p := pos()
		bit := rapid.IntRange(0, 7).Draw(t, "bit")
		b[p] ^= 1 << bit
		return b, fmt.Sprintf("bitflip@%d.%d", p, bit)
	case "word=":
		p := pos()
		if p+1 >= len(b) {
			p = len(b) - 2
		}
		if p < 0 {
			return b, "noop"
		}
		v := rapid.SampledFrom([]int{0, 1, 0xff, 0x100, 0x7fff, 0x8000, 0xfff0, 0xfffb, 0xfffc, 0xfffd, 0xfffe, 0xffff}).Draw(t, "wordval")
		b[p], b[p+1] = byte(v>>8), byte(v)
		return b, fmt.Sprintf("word@%d=%04x", p, v)
	case "word+-":
		p := pos()
		if p+1 >= len(b) {
			p = len(b) - 2
		}
		if p < 0 {
			return b, "noop"
		}
		d := rapid.SampledFrom([]int{-6, -2, -1, 1, 2, 5, 6, 255}).Draw(t, "delta")
		v := (int(b[p])<<8 | int(b[p+1])) + d
		b[p], b[p+1] = byte(v>>8), byte(v)
		return b, fmt.Sprintf("word@%d%+d", p, d)
	case "truncate":
		k := rapid.IntRange(0, len(b)-1).Draw(t, "cut")
		return b[:k], fmt.Sprintf("truncate@%d", k)
	case "truncate-tail":
		k := rapid.IntRange(1, min(len(b), 70)).Draw(t, "drop")
		return b[:len(b)-k], fmt.Sprintf("truncate-tail-%d", k)
	case "append":
		n := rapid.SampledFrom([]int{1, 2, 3, 5, 8, 40, 300}).Draw(t, "n")
		ext := model.Fill(n, rapid.Uint64().Draw(t, "seed"))
		if rapid.Bool().Draw(t, "zeros") {
			ext = make([]byte, n)
		}
		return append(b, ext...), fmt.Sprintf("append-%d", n)
	case "insert":
		p := pos()
		n := rapid.IntRange(1, 9).Draw(t, "n")
		ins := model.Fill(n, rapid.Uint64().Draw(t, "seed"))
		out := append(append(append([]byte{}, b[:p]...), ins...), b[p:]...)
		return out, fmt.Sprintf("insert-%d@%d", n, p)
	case "delete":
		p := pos()
		n := rapid.IntRange(1, 9).Draw(t, "n")
		if p+n > len(b) {
			n = len(b) - p
		}
		return append(b[:p:p], b[p+n:]...), fmt.Sprintf("delete-%d@%d", n, p)
	default:
		p := pos()
		n := rapid.IntRange(1, 40).Draw(t, "n")
		for i := p; i < len(b) && i < p+n; i++ {
			b[i] = 0
		}
		return b, fmt.Sprintf("zero-run-%d@%d", n, p)
	}
}

// InputG draws an input for one of the given entries.
func InputG(t *rapid.T, entries []string) Input {
	e := rapid.SampledFrom(entries).Draw(t, "entry")
	src := rapid.SampledFrom([]string{"valid", "valid", "mutated", "mutated", "mutated", "arbitrary"}).Draw(t, "source")
	in := Input{Entry: e, Source: src}
	if src == "arbitrary" {
		n := rapid.SampledFrom([]int{0, 1, 3, 12, 40, 387, 391, 500, 700}).Draw(t, "alen")
		b := model.Fill(n, rapid.Uint64().Draw(t, "aseed"))
		if rapid.Bool().Draw(t, "sparse") {
			for i := range b {
				if i%7 != 0 {
					b[i] = 0
				}
			}
		}
		if n >= 391 && rapid.Bool().Draw(t, "keycert") {
			copy(b[384:], []byte{5, 0, 4, 0, 7, 0, 4})
		}
		in.Hex = hex.EncodeToString(b)
		in.Typ = sigTypeArg(t)
		if e == "data.ReadInteger" || e == "data.NewInteger" {
			in.Typ = rapid.IntRange(-2, 10).Draw(t, "size")
		}
		return in
	}
	b, typ, hot := ValidFor(t, e)
	in.Typ = typ
	if src == "valid" {
		if rapid.IntRange(0, 3).Draw(t, "withsuffix") == 0 {
			b = append(b, model.Fill(rapid.IntRange(1, 20).Draw(t, "sfx"), 77)...)
			in.Mut = "suffix"
		}
	} else {
		n := rapid.IntRange(1, 2).Draw(t, "nmut")
		for i := 0; i < n; i++ {
			var d string
			b, d = Mutate(t, b, hot)
			in.Mut += d + " "
		}
	}
	in.Hex = hex.EncodeToString(b)
	return in
}
