package gen

import (
	"encoding/hex"

	"verif/internal/model"
)

// FixedInputs returns deterministic well-formed inputs for an entry point
// (no rapid involved): the seed corpus of the native fuzz targets.
func FixedInputs(entry string) []Input {
	var out []Input
	add := func(typ int, b []byte) {
		out = append(out, Input{Entry: entry, Typ: typ, Hex: hex.EncodeToString(b), Source: "seed"})
	}
	idents := []IdentSpec{
		{SigType: 7, EncType: 4, KeySeed: 1, PadSeed: 2},
		{SigType: 7, EncType: 0, KeySeed: 2, PadSeed: 3, Extra: "010203"},
		{SigType: 0, EncType: 0, NullCert: true, KeySeed: 3, PadSeed: 4},
		{SigType: 0, EncType: 4, KeySeed: 4, PadSeed: 5, PadMode: 3},
		{SigType: 1, EncType: 4, KeySeed: 5, PadSeed: 6},
		{SigType: 2, EncType: 0, KeySeed: 6, PadSeed: 7},
		{SigType: 11, EncType: 4, KeySeed: 7, PadSeed: 8, PadMode: 2},
		{SigType: 8, EncType: 5, KeySeed: 8, PadSeed: 9},
		// a destination well beyond the usual 391 bytes: KEY certificate with 100 payload bytes
		{SigType: 7, EncType: 4, KeySeed: 9, PadSeed: 10, Extra: hex.EncodeToString(model.Fill(100, 11))},
	}
	containers := append(append([]IdentSpec{}, idents[:7]...), idents[8]) // identities used inside the container structures
	opts := Pairs{{"61", ""}, {"686f7374", "312e322e332e34"}, {"706f7274", "3830"}}
	switch entry {
	case "data.ReadInteger", "data.NewInteger":
		for n := 1; n <= 8; n++ {
			add(n, model.Fill(n+2, uint64(n)))
		}
	case "data.NewIntegerFromBytes":
		add(0, []byte{1, 2, 3})
	case "data.ReadDate", "data.NewDate":
		add(0, model.U64(1700000000000))
	case "data.ReadHash", "data.NewHashFromSlice", "session_key.ReadSessionKey", "session_key.NewSessionKey",
		"session_tag.ReadSessionTag", "session_tag.NewSessionTag", "session_tag.NewSessionTagFromBytes":
		add(0, model.Fill(32, 1))
	case "session_tag.ReadECIESSessionTag", "session_tag.NewECIESSessionTag", "session_tag.NewECIESSessionTagFromBytes":
		add(0, model.Fill(8, 1))
	case "data.ReadI2PString", "data.NewI2PStringFromBytes":
		add(0, model.EncodeString([]byte("NTCP2")))
		add(0, []byte{0})
		add(0, model.EncodeString(model.Fill(255, 3)))
	case "data.ReadMapping", "data.NewMapping", "data.ReadMappingValues":
		add(0, model.MustMapping(nil))
		add(0, model.MustMapping(opts.Build()))
		add(0, append(model.MustMapping(opts.Build()), 1, 2, 3))
	case "certificate.ReadCertificate", "key_certificate.NewKeyCertificate":
		add(0, model.KeyCert(7, 4, nil).Encode())
		add(0, model.KeyCert(0, 0, []byte{9, 9}).Encode())
		add(0, model.Cert{Type: 0}.Encode())
		add(0, model.Cert{Type: 3, Payload: model.Fill(40, 1)}.Encode())
	case "keys_and_cert.ReadKeysAndCert", "keys_and_cert.ReadKeysAndCertElgAndEd25519", "keys_and_cert.ReadKeysAndCertX25519AndEd25519",
		"destination.ReadDestination", "destination.NewDestinationFromBytes", "router_identity.ReadRouterIdentity",
		"router_identity.NewRouterIdentityFromBytes", "lease_set.ReadDestinationFromLeaseSet":
		for _, s := range idents {
			id, _ := s.Build()
			add(0, id.Encode())
		}
	case "signature.ReadSignature", "signature.NewSignature", "signature.NewSignatureFromBytes":
		for _, t := range []int{0, 1, 2, 3, 7, 11} {
			add(t, model.Fill(model.SigLen[t], uint64(t)+1))
		}
	case "offline_signature.ReadOfflineSignature":
		for _, tt := range []int{7, 0, 1, 2, 11} {
			id, dk := idents[0].Build()
			o, _ := OfflineSpec{Expires: 1900000000, TType: tt, Seed: 3}.Build(id.SigType, dk)
			add(7, o.Encode())
		}
	case "lease.ReadLease", "lease.NewLeaseFromBytes":
		add(0, model.Fill(44, 1))
	case "lease.ReadLease2", "lease.NewLease2FromBytes":
		add(0, model.Fill(40, 1))
	case "lease_set.ReadLeaseSet":
		for _, s := range containers {
			s.EncType = 0
			if s.SigType != 0 {
				s.NullCert = false
			}
			m, _ := LeaseSetSpec{Dest: s, Seed: 5, Leases: []LeaseSpec{{Seed: 1, Tunnel: 2, EndMs: 1800000000000}, {Seed: 2, Tunnel: 3, EndMs: 5}}}.Build()
			add(0, m.Encode())
		}
	case "lease_set2.ReadLeaseSet2", "meta_leaseset.ReadMetaLeaseSet":
		for i, s := range containers {
			h := HeaderSpec{Dest: s, Published: 1700000000, Expires: 600, Flags: uint16(i%2) * 2}
			if i%2 == 0 {
				h.Offline = &OfflineSpec{Expires: 1900000000, TType: []int{7, 0, 1, 2, 11, 7, 0, 7}[i], Seed: 9}
			}
			if entry == "lease_set2.ReadLeaseSet2" {
				m, _, _ := LS2Spec{Header: h, Options: opts[:i%4], Keys: []KeySpec{{Type: 4, Len: -1, Seed: 1}, {Type: 0, Len: -1, Seed: 2}}[:1+i%2],
					Leases: []Lease2Spec{{Seed: 1, Tunnel: 2, End: 1800000000}, {Seed: 2, Tunnel: 3, End: 7}}[:1+i%2]}.Build()
				add(0, m.Encode())
			} else {
				m, _, _ := MetaSpec{Header: h, Options: opts[:i%3], Entries: []MetaEntrySpec{{Seed: 1, Type: 3, Expires: 1800000000, Cost: 5, Props: opts[:i%2]}, {Seed: 2, Type: 1, Expires: 9, Cost: 1}}[:1+i%2]}.Build()
				add(0, m.Encode())
			}
		}
	case "encrypted_leaseset.ReadEncryptedLeaseSet":
		for i, t := range []int{11, 7, 0, 1} {
			s := ELSSpec{SigType: t, KeySeed: uint64(i) + 1, Published: 1700000000, Expires: 600, InnerLen: 61 + 40*i, InnerSeed: 4}
			if i%2 == 1 {
				s.Offline = &OfflineSpec{Expires: 1900000000, TType: 7, Seed: 9}
			}
			m, _, _ := s.Build()
			add(0, m.Encode())
		}
	case "router_address.ReadRouterAddress":
		add(0, AddrSpec{Cost: 3, Style: "4e54435032", Options: opts}.Build().Encode())
		add(0, AddrSpec{Cost: 0, Style: "", Options: nil}.Build().Encode())
	case "router_info.ReadRouterInfo":
		for _, s := range append(append([]IdentSpec{}, idents[:6]...), idents[8]) {
			m, _ := RouterInfoSpec{Ident: s, Published: 1700000000000, Options: opts, Addrs: []AddrSpec{{Cost: 3, Style: "4e54435032", Options: opts}, {Cost: 9, Style: "53535532"}}}.Build()
			add(0, m.Encode())
		}
	}
	return out
}
