// Package gen holds JSON-serialisable *specs* of model values, deterministic
// builders from spec to model value (every byte is a function of the spec),
// and rapid generators of specs. Cases of the property packages embed specs,
// so a saved case rebuilds exactly the same input without rapid.
package gen

import (
	"encoding/hex"
	"fmt"
	"strings"

	"pgregory.net/rapid"

	"verif/internal/model"
)

func unhex(s string) []byte { b, _ := hex.DecodeString(s); return b }

// ---------------------------------------------------------------------------
// identities

// IdentSpec describes a KeysAndCert / Destination / RouterIdentity.
type IdentSpec struct {
	SigType  int    `json:"sig"`
	EncType  int    `json:"enc"`
	NullCert bool   `json:"null_cert,omitempty"` // NULL certificate (implies 0/0)
	KeySeed  uint64 `json:"key_seed"`
	PadSeed  uint64 `json:"pad_seed"`
	PadMode  int    `json:"pad_mode,omitempty"` // 0 pseudo-random, 1 zeros, 2 0xff, 3 repeating 32-byte block
	Extra    string `json:"cert_extra_hex,omitempty"`
}

// SupportedSig are the signing types whose keys fit inline and that the
// library can construct; SupportedEnc likewise for encryption.
var SupportedSig = []int{0, 1, 2, 7, 8, 11}
var SupportedEnc = []int{0, 4, 5, 6, 7}

func encKeyBytes(t int, seed uint64) []byte {
	if t == 0 {
		return model.ElgPub(seed)
	}
	n, ok := model.EncPubLen[t]
	if !ok {
		n = 32
	}
	return model.Fill(n, seed^0xec0de)
}

// Build returns the model identity and its signing key pair (nil when the
// signing type has no implementation in the model: then the key is filler).
func (s IdentSpec) Build() (model.Ident, *model.SignKey) {
	st, et := s.SigType, s.EncType
	if s.NullCert {
		st, et = 0, 0
	}
	id := model.Ident{SigType: st, EncType: et}
	k := model.NewSignKey(st, s.KeySeed)
	if k != nil {
		id.Sig = k.Pub
	} else {
		id.Sig = model.Fill(model.SigPubLen[st], s.KeySeed)
	}
	id.Enc = encKeyBytes(et, s.KeySeed+1)
	pl := 384 - len(id.Enc) - len(id.Sig)
	if pl < 0 {
		pl = 0
	}
	switch s.PadMode {
	case 1:
		id.Pad = make([]byte, pl)
	case 2:
		id.Pad = make([]byte, pl)
		for i := range id.Pad {
			id.Pad[i] = 0xff
		}
	case 3:
		blk := model.Fill(32, s.PadSeed)
		id.Pad = make([]byte, pl)
		for i := range id.Pad {
			id.Pad[i] = blk[i%32]
		}
	default:
		id.Pad = model.Fill(pl, s.PadSeed)
	}
	if s.NullCert {
		id.Cert = model.Cert{Type: 0}
	} else {
		id.Cert = model.KeyCert(st, et, unhex(s.Extra))
	}
	return id, k
}

// Ident draws an identity spec. sigs/encs restrict the key types (nil: all
// supported ones, with boosted weight on the rare ones).
func Ident(t *rapid.T, label string, sigs, encs []int) IdentSpec {
	if sigs == nil {
		sigs = []int{7, 7, 7, 11, 11, 0, 0, 1, 2}
	}
	if encs == nil {
		encs = []int{4, 4, 0, 0}
	}
	s := IdentSpec{
		SigType: rapid.SampledFrom(sigs).Draw(t, label+"-sig"),
		EncType: rapid.SampledFrom(encs).Draw(t, label+"-enc"),
		KeySeed: rapid.Uint64Range(1, 1<<20).Draw(t, label+"-keyseed"),
		PadSeed: SeedG(t, label+"-padseed", true),
		PadMode: rapid.SampledFrom([]int{0, 0, 0, 1, 2, 3}).Draw(t, label+"-padmode"),
	}
	if s.SigType == 0 && s.EncType == 0 && rapid.Bool().Draw(t, label+"-nullcert") {
		s.NullCert = true
	}
	if !s.NullCert && rapid.IntRange(0, 3).Draw(t, label+"-hasextra") == 0 {
		n := rapid.SampledFrom([]int{1, 2, 4, 12, 40}).Draw(t, label+"-extralen")
		switch r := rapid.IntRange(0, 399).Draw(t, label+"-bigextra"); {
		case r < 90: // certificate lengths around the one-byte boundary
			n = rapid.SampledFrom([]int{247, 251, 252, 253, 256, 300, 1000}).Draw(t, label+"-extralen2")
		case r == 90: // and near the two-byte limit (payload = 4 + n <= 65535); rare, every copy costs
			n = rapid.SampledFrom([]int{4000, 65531}).Draw(t, label+"-extralen3")
		}
		s.Extra = hex.EncodeToString(model.Fill(n, s.PadSeed^0xe))
	}
	return s
}

// ---------------------------------------------------------------------------
// mappings

// Pairs is an ordered list of hex (key, value) pairs.
type Pairs [][2]string

func (p Pairs) Build() []model.Pair {
	out := make([]model.Pair, 0, len(p))
	for _, kv := range p {
		out = append(out, model.Pair{K: unhex(kv[0]), V: unhex(kv[1])})
	}
	return out
}

var mapBytes = []byte{'=', ';', 0, 0xff, 0x80, 'a', 'b', 'k', 'z', '1'}

func smallStr(t *rapid.T, label string, minLen int) []byte {
	var n int
	switch rapid.IntRange(0, 7).Draw(t, label+"-lk") {
	case 0:
		n = rapid.SampledFrom([]int{0, 1, 1, 2, 254, 255}).Draw(t, label+"-len")
	case 1:
		n = rapid.IntRange(0, 60).Draw(t, label+"-len")
	default:
		n = rapid.IntRange(1, 9).Draw(t, label+"-len")
	}
	if n < minLen {
		n = minLen
	}
	if n > 12 {
		return model.Fill(n, rapid.Uint64().Draw(t, label+"-seed"))
	}
	b := make([]byte, n)
	for i := range b {
		if rapid.IntRange(0, 3).Draw(t, "sp") == 0 {
			b[i] = rapid.SampledFrom(mapBytes).Draw(t, "spb")
		} else {
			b[i] = byte(rapid.IntRange('a', 'z').Draw(t, "ch"))
		}
	}
	return b
}

// wellKnown: option keys the accessors of RouterAddress / RouterInfo interpret,
// with values from their edge sets (empty, one character, malformed, boundary).
var wellKnownKeys = []string{"host", "port", "caps", "s", "i", "v", "ih0", "iexp0", "itag0", "ih1", "iexp1", "itag1", "ih2", "iexp2", "itag2", "mtu", "router.version", "netId", "caps"}
var wellKnownVals = []string{"", "1.2.3.4", "::1", "::ffff:1.2.3.4", "example.i2p", "80", "0", "65536", "+80", "6", "4", "B6", "NRf", "0.9.64", "0.9", "a.b.c", "2", "x"}

// Options draws a sorted, duplicate-free pair list of 0..max pairs; about half
// of the non-empty lists use the well-known option vocabulary.
func Options(t *rapid.T, label string, max int) Pairs {
	n := 0
	if max > 0 {
		n = rapid.SampledFrom([]int{0, 0, 1, 1, 2, 3, max}).Draw(t, label+"-n")
	}
	seen := map[string]bool{}
	var ps []model.Pair
	vocab := n > 0 && rapid.Bool().Draw(t, label+"-vocab")
	for i := 0; i < n; i++ {
		var k, v []byte
		if vocab && rapid.IntRange(0, 3).Draw(t, label+"-wk") > 0 {
			k = []byte(rapid.SampledFrom(wellKnownKeys).Draw(t, label+"-wkk"))
			v = []byte(rapid.SampledFrom(wellKnownVals).Draw(t, label+"-wkv"))
			switch rapid.IntRange(0, 8).Draw(t, label+"-wklong") {
			case 0:
				v = model.Fill(rapid.SampledFrom([]int{15, 16, 17, 31, 32, 33, 255}).Draw(t, label+"-wklen"), 9)
			case 1:
				// text forms routers publish: I2P-base64 of 15..18 / 31..34 bytes with and
				// without padding, and strings over that alphabet of the lengths in between
				raw := model.Fill(rapid.SampledFrom([]int{15, 16, 17, 18, 31, 32, 33, 34}).Draw(t, label+"-b64raw"), rapid.Uint64Range(1, 1<<20).Draw(t, label+"-b64seed"))
				txt := model.Base64(raw)
				switch rapid.IntRange(0, 2).Draw(t, label+"-b64form") {
				case 1:
					txt = strings.TrimRight(txt, "=")
				case 2:
					n := rapid.SampledFrom([]int{22, 23, 24, 25, 43, 44, 45}).Draw(t, label+"-b64len")
					for len(txt) < n {
						txt += txt
					}
					txt = strings.ReplaceAll(txt, "=", "A")[:n]
				}
				v = []byte(txt)
			}
		} else {
			k = smallStr(t, label+"-k", 0)
			v = smallStr(t, label+"-v", 0)
		}
		if seen[string(k)] {
			continue
		}
		seen[string(k)] = true
		ps = append(ps, model.Pair{K: k, V: v})
	}
	m := map[string]string{}
	for _, p := range ps {
		m[string(p.K)] = string(p.V)
	}
	var out Pairs
	for _, p := range model.PairsFromMap(m) {
		out = append(out, [2]string{hex.EncodeToString(p.K), hex.EncodeToString(p.V)})
	}
	return out
}

// ---------------------------------------------------------------------------
// offline block, header

type OfflineSpec struct {
	Expires uint32 `json:"expires"`
	TType   int    `json:"ttype"`
	Seed    uint64 `json:"seed"`
	// Forge: 0 genuine (signed by the destination key), 1 random signature,
	// 2 signed by a different key of the destination's type.
	Forge int `json:"forge,omitempty"`
}

// Build returns the offline block and the transient key pair.
func (o OfflineSpec) Build(destType int, destKey *model.SignKey) (model.Offline, *model.SignKey) {
	tk := model.NewSignKey(o.TType, o.Seed)
	off := model.Offline{Expires: o.Expires, TType: o.TType}
	if tk != nil {
		off.TKey = tk.Pub
	} else {
		off.TKey = model.Fill(model.SigPubLen[o.TType], o.Seed)
	}
	switch {
	case o.Forge == 1 || destKey == nil:
		off.Sig = model.Fill(model.SigLen[destType], o.Seed^0xf00d)
	case o.Forge == 2:
		other := model.NewSignKey(destType, o.Seed^0xbad)
		off.Sig = other.Sign(off.SignedPart())
	default:
		off.Sig = destKey.Sign(off.SignedPart())
	}
	return off, tk
}

var boundaryU32 = []uint32{0, 1, 1<<31 - 1, 1 << 31, 1<<32 - 1, 1700000000, 4000000000}

func U32(t *rapid.T, label string) uint32 {
	if rapid.IntRange(0, 2).Draw(t, label+"-b") == 0 {
		return rapid.SampledFrom(boundaryU32).Draw(t, label)
	}
	return rapid.Uint32().Draw(t, label)
}

// SeedG draws the seed of a filled field (padding, gateway hash, entry hash, ciphertext):
// one time in twelve a degenerate content (model.DegenerateBase: all ones, a single set
// bit, one repeated byte, ascending; all zero only where zero=true - an all-zero gateway
// hash is a value the library's validators document as invalid).
func SeedG(t *rapid.T, label string, zero bool) uint64 {
	if rapid.IntRange(0, 11).Draw(t, label+"-deg") == 0 {
		lo := 1
		if zero {
			lo = 0
		}
		return model.DegenerateBase + uint64(rapid.IntRange(lo, 8).Draw(t, label+"-degk"))
	}
	return rapid.Uint64().Draw(t, label)
}

func U16(t *rapid.T, label string) uint16 {
	if rapid.IntRange(0, 2).Draw(t, label+"-b") == 0 {
		return rapid.SampledFrom([]uint16{0, 1, 600, 65535}).Draw(t, label)
	}
	return rapid.Uint16().Draw(t, label)
}

func OfflineG(t *rapid.T, label string, ttypes []int) *OfflineSpec {
	if ttypes == nil {
		ttypes = []int{7, 7, 11, 0, 1, 2}
	}
	return &OfflineSpec{
		Expires: U32(t, label+"-exp"),
		TType:   rapid.SampledFrom(ttypes).Draw(t, label+"-ttype"),
		Seed:    rapid.Uint64Range(1, 1<<20).Draw(t, label+"-seed"),
	}
}

// HeaderSpec: LeaseSet2 header fields common to LS2 and MetaLS.
type HeaderSpec struct {
	Dest      IdentSpec    `json:"dest"`
	Published uint32       `json:"published"`
	Expires   uint16       `json:"expires"`
	Flags     uint16       `json:"flags"` // bits other than bit 0; bit 0 follows Offline
	Offline   *OfflineSpec `json:"offline,omitempty"`
}

// Build returns the header, the destination key and the key that signs the
// outer structure (transient if an offline block is present).
func (h HeaderSpec) Build() (model.Header, *model.SignKey, *model.SignKey) {
	id, dk := h.Dest.Build()
	mh := model.Header{Dest: id, Published: h.Published, Expires: h.Expires, Flags: h.Flags &^ 1}
	outer := dk
	if h.Offline != nil {
		off, tk := h.Offline.Build(id.SigType, dk)
		mh.Offline = &off
		mh.Flags |= 1
		outer = tk
	}
	return mh, dk, outer
}

func HeaderG(t *rapid.T, label string, sigs []int, flagBits []uint16) HeaderSpec {
	h := HeaderSpec{
		Dest:      Ident(t, label+"-dest", sigs, nil),
		Published: U32(t, label+"-pub"),
		Expires:   U16(t, label+"-exp"),
	}
	for _, b := range flagBits {
		if rapid.IntRange(0, 3).Draw(t, label+"-flag") == 0 {
			h.Flags |= b
		}
	}
	if rapid.IntRange(0, 2).Draw(t, label+"-hasoffline") == 0 {
		h.Offline = OfflineG(t, label+"-off", nil)
	}
	return h
}

// ---------------------------------------------------------------------------
// leases

type Lease2Spec struct {
	Seed   uint64 `json:"seed"`
	Tunnel uint32 `json:"tunnel"`
	End    uint32 `json:"end"`
}

func (l Lease2Spec) Build() model.Lease2 {
	var x model.Lease2
	copy(x.GW[:], model.Fill(32, l.Seed))
	x.Tunnel, x.End = l.Tunnel, l.End
	return x
}

type LeaseSpec struct {
	Seed   uint64 `json:"seed"`
	Tunnel uint32 `json:"tunnel"`
	EndMs  uint64 `json:"end_ms"`
}

func (l LeaseSpec) Build() model.Lease {
	var x model.Lease
	copy(x.GW[:], model.Fill(32, l.Seed))
	x.Tunnel, x.EndMs = l.Tunnel, l.EndMs
	return x
}

func count(t *rapid.T, label string, min, max int) int {
	if rapid.IntRange(0, 2).Draw(t, label+"-ck") == 0 {
		c := rapid.SampledFrom([]int{0, 1, 2, 15, 16}).Draw(t, label)
		if c < min {
			c = min
		}
		if c > max {
			c = max
		}
		return c
	}
	hi := max
	if hi > 4 {
		hi = 4
	}
	return rapid.IntRange(min, hi).Draw(t, label)
}

var boundaryMs = []uint64{0, 1, 1<<31*1000 - 1, 1 << 31 * 1000, (1<<32 - 1) * 1000, 1700000000000, 9223372036854, 9223372036855, 1<<63 - 1}

func Leases2(t *rapid.T, label string, min int) []Lease2Spec {
	n := count(t, label+"-n", min, 16)
	out := make([]Lease2Spec, n)
	for i := range out {
		out[i] = Lease2Spec{Seed: SeedG(t, label+"-seed", false), Tunnel: rapid.Uint32().Draw(t, label+"-tun"), End: U32(t, label+"-end")}
	}
	return out
}

func Leases(t *rapid.T, label string) []LeaseSpec {
	n := count(t, label+"-n", 0, 16)
	out := make([]LeaseSpec, n)
	for i := range out {
		var end uint64
		if rapid.IntRange(0, 2).Draw(t, label+"-eb") == 0 {
			end = rapid.SampledFrom(boundaryMs).Draw(t, label+"-end")
		} else {
			end = rapid.Uint64Range(0, 1<<63-1).Draw(t, label+"-end")
		}
		out[i] = LeaseSpec{Seed: SeedG(t, label+"-seed", false), Tunnel: rapid.Uint32().Draw(t, label+"-tun"), EndMs: end}
	}
	return out
}

// ---------------------------------------------------------------------------
// LeaseSet (legacy)

type LeaseSetSpec struct {
	Dest   IdentSpec   `json:"dest"`
	Seed   uint64      `json:"seed"`
	Leases []LeaseSpec `json:"leases"`
	// EncMode: the 256-byte ElGamal field - 0 a value inside the group's range, 1 all 0xff,
	// 2 the integer 1, 3 zero, 4 0x80 followed by zeros (values a range check may treat specially)
	EncMode int `json:"enc_mode,omitempty"`
}

func (s LeaseSetSpec) Build() (model.LeaseSet, *model.SignKey) {
	id, dk := s.Dest.Build()
	ls := model.LeaseSet{Dest: id, EncKey: model.ElgPub(s.Seed)}
	switch s.EncMode {
	case 1:
		ls.EncKey = bytesOf(256, 0xff)
	case 2:
		ls.EncKey = bytesOf(256, 0)
		ls.EncKey[255] = 1
	case 3:
		ls.EncKey = bytesOf(256, 0)
	case 4:
		ls.EncKey = bytesOf(256, 0)
		ls.EncKey[0] = 0x80
	}
	// revocation key: same type as the destination's signing key; value-valid
	rk := model.NewSignKey(id.SigType, s.Seed^0x5e)
	if rk != nil {
		ls.SigKey = rk.Pub
	} else {
		ls.SigKey = model.Fill(model.SigPubLen[id.SigType], s.Seed)
	}
	for _, l := range s.Leases {
		ls.Leases = append(ls.Leases, l.Build())
	}
	if dk != nil {
		ls.Sig = dk.Sign(ls.SignedPart())
	} else {
		ls.Sig = model.Fill(model.SigLen[id.SigType], s.Seed)
	}
	return ls, dk
}

func bytesOf(n int, v byte) []byte {
	b := make([]byte, n)
	for i := range b {
		b[i] = v
	}
	return b
}

// LeaseSetParseG is LeaseSetG for parse-side inputs: one in eight carries an
// encryption-key field outside the ElGamal range (the library may refuse those).
func LeaseSetParseG(t *rapid.T, label string) LeaseSetSpec {
	s := LeaseSetG(t, label)
	if rapid.IntRange(0, 7).Draw(t, label+"-encmode") == 0 {
		s.EncMode = rapid.IntRange(1, 4).Draw(t, label+"-encm")
	}
	return s
}

func LeaseSetG(t *rapid.T, label string) LeaseSetSpec {
	return LeaseSetSpec{
		Dest:   Ident(t, label+"-dest", []int{7, 7, 11, 0, 0, 1, 2}, []int{0, 0, 4}),
		Seed:   rapid.Uint64Range(1, 1<<20).Draw(t, label+"-seed"),
		Leases: Leases(t, label+"-leases"),
	}
}

// ---------------------------------------------------------------------------
// LeaseSet2

type KeySpec struct {
	Type int    `json:"type"`
	Len  int    `json:"len"` // -1: the natural length of the type (32 for unknown types)
	Seed uint64 `json:"seed"`
}

func (k KeySpec) Build() model.EncKey {
	n := k.Len
	if n < 0 {
		var ok bool
		if n, ok = model.EncPubLen[k.Type]; !ok {
			n = 32
		}
	}
	var d []byte
	if k.Type == 0 && n == 256 {
		d = model.ElgPub(k.Seed)
	} else {
		d = model.Fill(n, k.Seed)
	}
	return model.EncKey{Type: k.Type, Len: n, Data: d}
}

type LS2Spec struct {
	Header  HeaderSpec   `json:"header"`
	Options Pairs        `json:"options"`
	Keys    []KeySpec    `json:"keys"`
	Leases  []Lease2Spec `json:"leases"`
}

// Build returns the signed model value, destination key and outer key.
func (s LS2Spec) Build() (model.LS2, *model.SignKey, *model.SignKey) {
	h, dk, ok := s.Header.Build()
	l := model.LS2{Header: h, Options: s.Options.Build()}
	for _, k := range s.Keys {
		l.Keys = append(l.Keys, k.Build())
	}
	for _, x := range s.Leases {
		l.Leases = append(l.Leases, x.Build())
	}
	if ok != nil {
		l.Sig = ok.Sign(l.SignedPart())
	} else {
		l.Sig = model.Fill(model.SigLen[h.OuterSigType()], 99)
	}
	return l, dk, ok
}

func KeysG(t *rapid.T, label string, strict bool) []KeySpec {
	n := count(t, label+"-n", 1, 16)
	out := make([]KeySpec, n)
	for i := range out {
		types := []int{4, 4, 0, 5, 6, 7}
		if !strict {
			types = append(types, 1, 2, 3, 255, 65280, 9)
		}
		k := KeySpec{Type: rapid.SampledFrom(types).Draw(t, label+"-type"), Len: -1, Seed: rapid.Uint64Range(1, 1<<30).Draw(t, label+"-seed")}
		if !strict {
			if _, known := model.EncPubLen[k.Type]; !known && rapid.Bool().Draw(t, label+"-oddlen") {
				k.Len = rapid.SampledFrom([]int{0, 1, 31, 33, 800}).Draw(t, label+"-len")
			}
		}
		out[i] = k
	}
	return out
}

func LS2G(t *rapid.T, label string, sigs []int) LS2Spec {
	return LS2Spec{
		Header:  HeaderG(t, label+"-hdr", sigs, []uint16{2, 4}),
		Options: Options(t, label+"-opt", 6),
		Keys:    KeysG(t, label+"-keys", false),
		Leases:  Leases2(t, label+"-leases", 1),
	}
}

// ---------------------------------------------------------------------------
// MetaLeaseSet (library-documented layout)

type MetaEntrySpec struct {
	Seed    uint64 `json:"seed"`
	Type    uint8  `json:"type"`
	Expires uint32 `json:"expires"`
	Cost    uint8  `json:"cost"`
	Props   Pairs  `json:"props"`
}

type MetaSpec struct {
	Header  HeaderSpec      `json:"header"`
	Options Pairs           `json:"options"`
	Entries []MetaEntrySpec `json:"entries"`
}

func (s MetaSpec) Build() (model.MetaLS, *model.SignKey, *model.SignKey) {
	h, dk, ok := s.Header.Build()
	m := model.MetaLS{Header: h, Options: s.Options.Build()}
	for _, e := range s.Entries {
		me := model.MetaEntry{Type: e.Type, Expires: e.Expires, Cost: e.Cost, Props: e.Props.Build()}
		copy(me.Hash[:], model.Fill(32, e.Seed))
		m.Entries = append(m.Entries, me)
	}
	if ok != nil {
		m.Sig = ok.Sign(m.SignedPart())
	} else {
		m.Sig = model.Fill(model.SigLen[h.OuterSigType()], 98)
	}
	return m, dk, ok
}

func MetaG(t *rapid.T, label string, sigs []int) MetaSpec {
	s := MetaSpec{Header: HeaderG(t, label+"-hdr", sigs, []uint16{2}), Options: Options(t, label+"-opt", 5)}
	n := count(t, label+"-n", 1, 16)
	for i := 0; i < n; i++ {
		s.Entries = append(s.Entries, MetaEntrySpec{
			Seed:    SeedG(t, label+"-eseed", false),
			Type:    rapid.SampledFrom([]uint8{1, 3, 5}).Draw(t, label+"-etype"),
			Expires: U32(t, label+"-eexp"),
			Cost:    rapid.Uint8().Draw(t, label+"-ecost"),
			Props:   Options(t, label+"-eprops", 3),
		})
	}
	return s
}

// ---------------------------------------------------------------------------
// EncryptedLeaseSet

type ELSSpec struct {
	SigType   int          `json:"sig"`
	KeySeed   uint64       `json:"key_seed"`
	Published uint32       `json:"published"`
	Expires   uint16       `json:"expires"`
	Flags     uint16       `json:"flags"` // bit 1 only; bit 0 follows Offline
	Offline   *OfflineSpec `json:"offline,omitempty"`
	InnerLen  int          `json:"inner_len"`
	InnerSeed uint64       `json:"inner_seed"`
}

func (s ELSSpec) Build() (model.ELS, *model.SignKey, *model.SignKey) {
	bk := model.NewSignKey(s.SigType, s.KeySeed)
	e := model.ELS{SigType: s.SigType, Published: s.Published, Expires: s.Expires, Flags: s.Flags &^ 1}
	if bk != nil {
		e.Blinded = bk.Pub
	} else {
		e.Blinded = model.Fill(model.SigPubLen[s.SigType], s.KeySeed)
	}
	outer := bk
	if s.Offline != nil {
		off, tk := s.Offline.Build(s.SigType, bk)
		e.Offline = &off
		e.Flags |= 1
		outer = tk
	}
	e.Inner = model.Fill(s.InnerLen, s.InnerSeed)
	if outer != nil {
		e.Sig = outer.Sign(e.SignedPart())
	} else {
		e.Sig = model.Fill(model.SigLen[e.OuterSigType()], 97)
	}
	return e, bk, outer
}

func ELSG(t *rapid.T, label string, sigs []int) ELSSpec {
	if sigs == nil {
		sigs = []int{11, 11, 7, 7, 0, 1, 2, 11, 7, 3, 4} // 3, 4: P-521 and RSA-2048 blinded-key fields (132 / 256 bytes)
	}
	s := ELSSpec{
		SigType:   rapid.SampledFrom(sigs).Draw(t, label+"-sig"),
		KeySeed:   rapid.Uint64Range(1, 1<<20).Draw(t, label+"-keyseed"),
		Published: U32(t, label+"-pub"),
		Expires:   U16(t, label+"-exp"),
		InnerLen:  rapid.SampledFrom([]int{61, 62, 100, 600, 2000, 65535}).Draw(t, label+"-innerlen"),
		InnerSeed: SeedG(t, label+"-innerseed", true),
	}
	if s.Expires == 0 {
		s.Expires = 1
	}
	if rapid.IntRange(0, 3).Draw(t, label+"-unpub") == 0 {
		s.Flags |= 2
	}
	if rapid.IntRange(0, 2).Draw(t, label+"-hasoffline") == 0 {
		s.Offline = OfflineG(t, label+"-off", nil)
	}
	return s
}

// ---------------------------------------------------------------------------
// RouterAddress / RouterInfo

type AddrSpec struct {
	Cost       uint8  `json:"cost"`
	Expiration uint64 `json:"expiration"`
	Style      string `json:"style_hex"`
	Options    Pairs  `json:"options"`
}

func (a AddrSpec) Build() model.RouterAddr {
	return model.RouterAddr{Cost: a.Cost, Expiration: a.Expiration, Style: unhex(a.Style), Options: a.Options.Build()}
}

// introducers: an SSU address as routers publish it - host, port and 1..3 complete
// introducer triples (ih<n>, iexp<n>, itag<n>), optionally with a gap.
func introducers(t *rapid.T, label string) Pairs {
	m := map[string]string{"host": "1.2.3.4", "port": "9000", "caps": "BC"}
	n := rapid.IntRange(1, 3).Draw(t, label+"-n")
	gap := -1
	if rapid.IntRange(0, 4).Draw(t, label+"-gap") == 0 {
		gap = rapid.IntRange(0, n-1).Draw(t, label+"-gapat")
	}
	for i := 0; i < n; i++ {
		if i == gap {
			continue
		}
		m[fmt.Sprintf("ih%d", i)] = model.Base64(model.Fill(32, uint64(i)+3))
		m[fmt.Sprintf("iexp%d", i)] = fmt.Sprint(1700000000 + i)
		m[fmt.Sprintf("itag%d", i)] = fmt.Sprint(1000 + i)
	}
	var out Pairs
	for _, p := range model.PairsFromMap(m) {
		out = append(out, [2]string{hex.EncodeToString(p.K), hex.EncodeToString(p.V)})
	}
	return out
}

func AddrG(t *rapid.T, label string) AddrSpec {
	a := AddrSpec{Cost: rapid.Uint8().Draw(t, label+"-cost"), Options: Options(t, label+"-opt", 6)}
	if rapid.IntRange(0, 7).Draw(t, label+"-introducers") == 0 {
		a.Options = introducers(t, label+"-intro")
		a.Style = hex.EncodeToString([]byte(rapid.SampledFrom([]string{"SSU", "SSU2", "ssu2"}).Draw(t, label+"-ssustyle")))
		return a
	}
	if rapid.IntRange(0, 3).Draw(t, label+"-hasexp") == 0 {
		a.Expiration = rapid.Uint64().Draw(t, label+"-exp")
	}
	style := rapid.SampledFrom([]string{"NTCP2", "SSU2", "SSU", "x", ""}).Draw(t, label+"-style")
	if rapid.IntRange(0, 5).Draw(t, label+"-longstyle") == 0 {
		style = string(model.Fill(rapid.SampledFrom([]int{1, 254, 255}).Draw(t, label+"-stylelen"), 3))
	}
	a.Style = hex.EncodeToString([]byte(style))
	return a
}

type RouterInfoSpec struct {
	Ident     IdentSpec  `json:"ident"`
	Published uint64     `json:"published"`
	Addrs     []AddrSpec `json:"addrs"`
	Options   Pairs      `json:"options"`
}

func (s RouterInfoSpec) Build() (model.RouterInfo, *model.SignKey) {
	id, k := s.Ident.Build()
	ri := model.RouterInfo{Ident: id, Published: s.Published, Options: s.Options.Build()}
	for _, a := range s.Addrs {
		ri.Addrs = append(ri.Addrs, a.Build())
	}
	if k != nil {
		ri.Sig = k.Sign(ri.SignedPart())
	} else {
		ri.Sig = model.Fill(model.SigLen[id.SigType], 96)
	}
	return ri, k
}

func RouterInfoG(t *rapid.T, label string, sigs []int) RouterInfoSpec {
	if sigs == nil {
		sigs = []int{7, 7, 7, 0, 1, 2}
	}
	s := RouterInfoSpec{Ident: Ident(t, label+"-ident", sigs, nil), Options: Options(t, label+"-opt", 6)}
	if rapid.IntRange(0, 2).Draw(t, label+"-pubk") == 0 {
		s.Published = rapid.SampledFrom(boundaryMs).Draw(t, label+"-pub")
	} else {
		s.Published = rapid.Uint64Range(1, 1<<62).Draw(t, label+"-pub")
	}
	n := rapid.SampledFrom([]int{0, 1, 1, 2, 3, 8}).Draw(t, label+"-naddr")
	for i := 0; i < n; i++ {
		s.Addrs = append(s.Addrs, AddrG(t, label+"-addr"))
	}
	return s
}
