// Package ev is the evidence / verdict plumbing shared by every property
// package of the harness. It is the only writer of per-shard statistics, the
// only place that decides "violation vs. known finding", and the only code
// that writes replay files.
//
// A property is an ev.Prop[C]: a rapid generator of JSON-serialisable cases C
// and a pure check function over C. Three front ends feed the same check:
// rapid (Run), a plain replay of a saved case (Replay) and a native fuzz
// target (Fuzz).
package ev

import (
	"crypto/sha256"
	"encoding/hex"
	"encoding/json"
	"flag"
	"fmt"
	"hash/fnv"
	"os"
	"path/filepath"
	"sort"
	"strconv"
	"strings"
	"sync"
	"testing"
	"time"

	"pgregory.net/rapid"
)

var (
	replayFlag = flag.String("verif.replay", "", "replay a saved case file instead of generating")
)

// Finding is one entry of /verif/known_findings.json.
type Finding struct {
	ID         string   `json:"id"`
	Properties []string `json:"properties"`
	Status     string   `json:"status"` // "known" or "fixed"
	Commit     string   `json:"commit,omitempty"`
	What       string   `json:"what"`
	Signature  string   `json:"signature,omitempty"`
}

type findingsFile struct {
	Findings []Finding `json:"findings"`
}

// Rec accumulates what one process explored.
type Rec struct {
	mu        sync.Mutex
	PropID    string
	evals     int64
	classes   map[string]int64
	distinct  map[uint64]struct{}
	samples   []json.RawMessage
	nsample   int64
	known     map[string]int64
	knownEx   map[string]json.RawMessage
	viol      []string
	requested map[string]int64
	completed map[string]int64
	exhaust   map[string]bool
	notes     []string
	floors    map[string]int64
	findings  map[string]Finding
	start     time.Time
	lastFlush time.Time
	out       string
	fuzzing   bool
	rule      string
	cur       string // sub-check whose Check function is running (labels the samples)
}

// maxDistinct bounds the per-process set of non-trivial case hashes (memory
// and statistics-file size); cases beyond it are not counted as distinct.
const maxDistinct = 3000000

// fuzz workers are many, long-lived and flush periodically: a much smaller cap
// keeps their memory and statistics files small (they count conservatively).
const maxDistinctFuzz = 200000

var global *Rec

// R returns the process-wide recorder (created by Main).
func R() *Rec { return global }

func envInt(name string, def int) int {
	if v := os.Getenv(name); v != "" {
		if n, err := strconv.Atoi(v); err == nil {
			return n
		}
	}
	return def
}

// Tier returns "quick" or "thorough".
func Tier() string {
	if os.Getenv("VERIF_TIER") == "thorough" {
		return "thorough"
	}
	return "quick"
}

// Seed returns the base seed (never 0).
func Seed() uint64 {
	s := envInt("VERIF_SEED", 1)
	if s <= 0 {
		s = 1
	}
	return uint64(s)
}

func Shard() int { return envInt("VERIF_SHARD", 0) }
func Shards() int {
	n := envInt("VERIF_SHARDS", 1)
	if n < 1 {
		n = 1
	}
	return n
}

func verifDir() string {
	if d := os.Getenv("VERIF_DIR"); d != "" {
		return d
	}
	return "/verif"
}

func newRec(id string) *Rec {
	r := &Rec{
		PropID:    id,
		classes:   map[string]int64{},
		distinct:  map[uint64]struct{}{},
		known:     map[string]int64{},
		knownEx:   map[string]json.RawMessage{},
		requested: map[string]int64{},
		completed: map[string]int64{},
		exhaust:   map[string]bool{},
		floors:    map[string]int64{},
		findings:  map[string]Finding{},
		start:     time.Now(),
		lastFlush: time.Now(),
		out:       os.Getenv("VERIF_OUT"),
		fuzzing:   os.Getenv("VERIF_FUZZING") != "",
	}
	path := filepath.Join(verifDir(), "known_findings.json")
	if b, err := os.ReadFile(path); err == nil {
		var ff findingsFile
		if err := json.Unmarshal(b, &ff); err == nil {
			for _, f := range ff.Findings {
				r.findings[f.ID] = f
			}
		}
	}
	return r
}

// Main is called from TestMain of each property package.
func Main(m *testing.M, propID string, rule string) {
	global = newRec(propID)
	global.rule = rule
	if !flag.Parsed() {
		flag.Parse()
	}
	// Keep rapid quiet and deterministic: no fail files, bounded shrinking.
	_ = flag.Set("rapid.nofailfile", "true")
	_ = flag.Set("rapid.shrinktime", "20s")
	code := m.Run()
	global.Flush()
	os.Exit(code)
}

// Eval counts one oracle evaluation.
func (r *Rec) Eval() {
	r.mu.Lock()
	r.evals++
	n := r.evals
	r.mu.Unlock()
	if n%4096 == 0 && r.out != "" && r.fuzzing {
		// fuzz workers may be killed without running deferred code
		if time.Since(r.lastFlush) > 10*time.Second {
			r.Flush()
		}
	}
}

// EvalN counts n evaluations at once.
func (r *Rec) EvalN(n int) {
	r.mu.Lock()
	r.evals += int64(n)
	r.mu.Unlock()
}

// Class bumps a class counter (the measured distribution of generated cases).
func (r *Rec) Class(label string) {
	r.mu.Lock()
	r.classes[label]++
	r.mu.Unlock()
}

// ClassN bumps a class counter by n.
func (r *Rec) ClassN(label string, n int) {
	r.mu.Lock()
	r.classes[label] += int64(n)
	r.mu.Unlock()
}

// NonTrivial records a non-trivial case; key identifies it for distinctness.
// sample (may be nil) is a value to write into the evidence samples.
func (r *Rec) NonTrivial(sample any, key ...[]byte) {
	h := fnv.New64a()
	for _, k := range key {
		var l [4]byte
		l[0], l[1], l[2], l[3] = byte(len(k)>>24), byte(len(k)>>16), byte(len(k)>>8), byte(len(k))
		h.Write(l[:])
		h.Write(k)
	}
	v := h.Sum64()
	r.mu.Lock()
	_, seen := r.distinct[v]
	limit := maxDistinct
	if r.fuzzing {
		limit = maxDistinctFuzz
	}
	if !seen && len(r.distinct) >= limit {
		// conservative: beyond the cap new cases are no longer counted
		r.classes["distinct-set-capped"]++
		seen = true
	}
	if !seen {
		r.distinct[v] = struct{}{}
		r.nsample++
		n := r.nsample
		// keep the first three and then every power of two: cheap, deterministic
		if sample != nil && (n <= 3 || n&(n-1) == 0) && len(r.samples) < 24 {
			if b, err := json.Marshal(map[string]any{"sub": r.cur, "case": sample}); err == nil && len(b) < 6000 {
				r.samples = append(r.samples, b)
			}
		}
	}
	r.mu.Unlock()
}

// NonTrivialStr is NonTrivial with string keys.
func (r *Rec) NonTrivialStr(sample any, key ...string) {
	bs := make([][]byte, len(key))
	for i, k := range key {
		bs[i] = []byte(k)
	}
	r.NonTrivial(sample, bs...)
}

// Known reports whether finding id is listed with status "known" for this
// property. When true the caller must treat the case as excluded (counted, not
// a violation). A "fixed" or unlisted id returns false: the case is a
// violation.
func (r *Rec) Known(id string, example any) bool {
	f, ok := r.findings[id]
	if !ok || f.Status != "known" {
		return false
	}
	okProp := false
	for _, p := range f.Properties {
		if p == r.PropID {
			okProp = true
		}
	}
	if !okProp {
		return false
	}
	r.mu.Lock()
	r.known[id]++
	if _, have := r.knownEx[id]; !have && example != nil {
		if b, err := json.Marshal(example); err == nil && len(b) < 6000 {
			r.knownEx[id] = b
		}
	}
	r.mu.Unlock()
	return true
}

// Note attaches a free-text remark to the evidence (e.g. skipped methods).
func (r *Rec) Note(s string) {
	r.mu.Lock()
	for _, n := range r.notes {
		if n == s {
			r.mu.Unlock()
			return
		}
	}
	if len(r.notes) < 200 {
		r.notes = append(r.notes, s)
	}
	r.mu.Unlock()
}

// Floor declares that the merged count of a class must reach min for the run
// to be conclusive (a generator that stops producing the shape that matters
// makes the check vacuous; the driver then reports INCONCLUSIVE, exit 2).
func (r *Rec) Floor(class string, min int64) {
	r.mu.Lock()
	r.floors[class] = min
	r.mu.Unlock()
}

// Exhaustive marks a named finite sub-space as completely enumerated.
func (r *Rec) Exhaustive(name string, done bool) {
	r.mu.Lock()
	r.exhaust[name] = done
	r.mu.Unlock()
}

type replayFile struct {
	Property string          `json:"property"`
	Sub      string          `json:"sub"`
	Message  string          `json:"message"`
	Case     json.RawMessage `json:"case"`
}

// violation writes the replay file and prints the VIOLATION line.
func (r *Rec) Violation(sub string, c any, msg string) string {
	cb, _ := json.Marshal(c)
	rf := replayFile{Property: r.PropID, Sub: sub, Message: msg, Case: cb}
	b, _ := json.MarshalIndent(rf, "", " ")
	sum := sha256.Sum256(cb)
	dir := os.Getenv("VERIF_REPLAY_DIR")
	if dir == "" {
		dir = filepath.Join(verifDir(), "replays")
	}
	_ = os.MkdirAll(dir, 0o755)
	path := filepath.Join(dir, fmt.Sprintf("%s-%s-%s.json", r.PropID, sub, hex.EncodeToString(sum[:6])))
	_ = os.WriteFile(path, b, 0o644)
	line := fmt.Sprintf("VIOLATION property=%s replay=%s", r.PropID, path)
	r.mu.Lock()
	dup := false
	for _, v := range r.viol {
		if v == line {
			dup = true
		}
	}
	if !dup {
		r.viol = append(r.viol, line)
	}
	r.mu.Unlock()
	if !dup {
		fmt.Printf("%s\n", line)
		fmt.Printf("VIOLATION-DETAIL property=%s sub=%s: %s\n", r.PropID, sub, oneLine(msg, 600))
	}
	return path
}

func oneLine(s string, max int) string {
	s = strings.ReplaceAll(s, "\n", " | ")
	if len(s) > max {
		s = s[:max] + "…"
	}
	return s
}

type statsFile struct {
	Property    string                     `json:"property"`
	Rule        string                     `json:"rule"`
	Shard       int                        `json:"shard"`
	Pid         int                        `json:"pid"`
	Evals       int64                      `json:"evaluations"`
	Classes     map[string]int64           `json:"classes"`
	Distinct    []uint64                   `json:"distinct"`
	Samples     []json.RawMessage          `json:"samples"`
	Known       map[string]int64           `json:"known"`
	KnownEx     map[string]json.RawMessage `json:"known_examples"`
	Violations  []string                   `json:"violations"`
	Requested   map[string]int64           `json:"requested"`
	Completed   map[string]int64           `json:"completed"`
	Exhaustive  map[string]bool            `json:"exhaustive"`
	Notes       []string                   `json:"notes"`
	Floors      map[string]int64           `json:"floors"`
	WallSeconds float64                    `json:"wall_s"`
}

// Flush writes the per-process statistics to $VERIF_OUT (suffix .<pid> for
// fuzz workers).
func (r *Rec) Flush() {
	if r.out == "" {
		return
	}
	r.mu.Lock()
	defer r.mu.Unlock()
	r.lastFlush = time.Now()
	d := make([]uint64, 0, len(r.distinct))
	for k := range r.distinct {
		d = append(d, k)
	}
	sort.Slice(d, func(i, j int) bool { return d[i] < d[j] })
	sf := statsFile{
		Property: r.PropID, Rule: r.rule, Shard: Shard(), Pid: os.Getpid(), Evals: r.evals, Classes: r.classes,
		Distinct: d, Samples: r.samples, Known: r.known, KnownEx: r.knownEx, Violations: r.viol,
		Requested: r.requested, Completed: r.completed, Exhaustive: r.exhaust, Notes: r.notes, Floors: r.floors,
		WallSeconds: time.Since(r.start).Seconds(),
	}
	b, err := json.Marshal(sf)
	if err != nil {
		return
	}
	path := r.out
	if os.Getenv("VERIF_FUZZING") != "" {
		path = fmt.Sprintf("%s.%d", r.out, os.Getpid())
	}
	tmp := path + ".tmp"
	if os.WriteFile(tmp, b, 0o644) == nil {
		_ = os.Rename(tmp, path)
	}
}

// ---------------------------------------------------------------------------

// Prop is one executable property over cases of type C.
type Prop[C any] struct {
	Sub      string             // sub-check name (unique within the package)
	Quick    int                // total rapid cases in the quick tier (all shards together)
	Thorough int                // total rapid cases in the thorough tier
	Gen      func(t *rapid.T) C // generator: every random choice is drawn here
	Check    func(c C, r *Rec) error
}

func (p *Prop[C]) count() int {
	n := p.Quick
	if Tier() == "thorough" {
		n = p.Thorough
	}
	if s := os.Getenv("VERIF_SCALE"); s != "" {
		if f, err := strconv.ParseFloat(s, 64); err == nil && f > 0 {
			n = int(float64(n) * f)
		}
	}
	per := n / Shards()
	if per < 1 {
		per = 1
	}
	return per
}

// safeCheck runs Check converting a panic inside the *harness or library* into
// an error (a panic is a failure of the case, never a crash of the campaign).
func (p *Prop[C]) safeCheck(c C, r *Rec) (err error) {
	r.mu.Lock()
	r.cur = p.Sub
	r.mu.Unlock()
	defer func() {
		if x := recover(); x != nil {
			err = fmt.Errorf("panic during check: %v", x)
		}
	}()
	return p.Check(c, r)
}

// Run drives the property with rapid. It must be called from a Test function.
func (p *Prop[C]) Run(t *testing.T) {
	r := R()
	if *replayFlag != "" {
		t.Skip("replay mode")
	}
	n := p.count()
	seed := Seed()*1000 + uint64(Shard())
	_ = flag.Set("rapid.checks", strconv.Itoa(n))
	_ = flag.Set("rapid.seed", strconv.FormatUint(seed, 10))
	r.mu.Lock()
	r.requested[p.Sub] += int64(n)
	r.mu.Unlock()
	var last *C
	var lastMsg string
	defer func() {
		if last != nil {
			r.Violation(p.Sub, *last, lastMsg)
		}
	}()
	rapid.Check(t, func(rt *rapid.T) {
		c := p.Gen(rt)
		r.Eval()
		if err := p.safeCheck(c, r); err != nil {
			cc := c
			last = &cc
			lastMsg = err.Error()
			rt.Fatalf("%s/%s: %v", r.PropID, p.Sub, err)
		}
		r.mu.Lock()
		r.completed[p.Sub]++
		r.mu.Unlock()
	})
}

// Replay runs the check directly on a saved case (no rapid, no fuzzer).
// Returns true when the file was for this sub-check.
func (p *Prop[C]) Replay(t *testing.T) bool {
	if *replayFlag == "" {
		return false
	}
	b, err := os.ReadFile(*replayFlag)
	if err != nil {
		t.Fatalf("cannot read replay file: %v", err)
	}
	return p.replayBytes(t, *replayFlag, b)
}

func (p *Prop[C]) replayBytes(t *testing.T, path string, b []byte) bool {
	var rf replayFile
	if err := json.Unmarshal(b, &rf); err != nil {
		t.Fatalf("bad replay file %s: %v", path, err)
	}
	if rf.Sub != p.Sub {
		return false
	}
	var c C
	if err := json.Unmarshal(rf.Case, &c); err != nil {
		t.Fatalf("bad case in %s: %v", path, err)
	}
	r := R()
	r.Eval()
	if err := p.safeCheck(c, r); err != nil {
		fmt.Printf("VIOLATION property=%s replay=%s\n", r.PropID, path)
		fmt.Printf("VIOLATION-DETAIL property=%s sub=%s: %s\n", r.PropID, p.Sub, oneLine(err.Error(), 600))
		r.mu.Lock()
		r.viol = append(r.viol, "VIOLATION property="+r.PropID+" replay="+path)
		r.mu.Unlock()
		t.Errorf("replay %s: %v", path, err)
	} else {
		fmt.Printf("REPLAY-OK property=%s sub=%s file=%s\n", r.PropID, p.Sub, path)
	}
	return true
}

// Regress replays every committed regression case of this sub-check
// (testdata/regress/*.json in the package directory).
func (p *Prop[C]) Regress(t *testing.T) {
	if *replayFlag != "" {
		return
	}
	files, _ := filepath.Glob("testdata/regress/*.json")
	sort.Strings(files)
	for _, f := range files {
		b, err := os.ReadFile(f)
		if err != nil {
			continue
		}
		if p.replayBytes(t, f, b) {
			R().Class("regress-replayed")
		}
	}
}

// One runs the check on a single explicit case (used by enumerations).
func (p *Prop[C]) One(c C) error {
	r := R()
	r.Eval()
	err := p.safeCheck(c, r)
	if err != nil {
		r.Violation(p.Sub, c, err.Error())
	}
	return err
}

// Fuzz wires the check into a native fuzz target. decode turns fuzzer bytes
// into a case (ok=false: input not in the domain, skipped).
func (p *Prop[C]) Fuzz(f *testing.F, decode func(b []byte) (C, bool)) {
	r := R()
	f.Fuzz(func(t *testing.T, b []byte) {
		c, ok := decode(b)
		if !ok {
			return
		}
		r.Eval()
		if err := p.safeCheck(c, r); err != nil {
			r.Violation(p.Sub, c, err.Error())
			r.Flush()
			t.Fatalf("%s/%s: %v", r.PropID, p.Sub, err)
		}
	})
}

// Enumerate runs fn once (shard 0 only unless sharded=true, in which case fn
// receives shard/shards and must partition the space itself) and records
// whether the finite space was completed.
func Enumerate(t *testing.T, name string, sharded bool, fn func(shard, shards int, r *Rec) error) {
	if *replayFlag != "" {
		t.Skip("replay mode")
	}
	r := R()
	sh, n := Shard(), Shards()
	if !sharded {
		if sh != 0 {
			return
		}
		n = 1
	}
	r.mu.Lock()
	before := len(r.viol)
	r.mu.Unlock()
	err := func() (err error) {
		defer func() {
			if x := recover(); x != nil {
				err = fmt.Errorf("panic during enumeration %s: %v", name, x)
			}
		}()
		return fn(sh, n, r)
	}()
	if err != nil {
		r.mu.Lock()
		reported := len(r.viol) > before
		r.mu.Unlock()
		if !reported {
			// an enumeration that fails must name its violation (otherwise the driver
			// could only call the run inconclusive)
			r.Violation("enum-"+name, map[string]string{"enumeration": name, "failure": err.Error()}, err.Error())
		}
		r.Exhaustive(name, false)
		t.Errorf("%s: %v", name, err)
		return
	}
	r.Exhaustive(name, true)
}

// Hex helpers used by case structs.
func H(b []byte) string { return hex.EncodeToString(b) }

// Sum64 is FNV-1a over b (for deterministic per-input choices).
func Sum64(b []byte) uint64 {
	h := uint64(14695981039346656037)
	for _, x := range b {
		h ^= uint64(x)
		h *= 1099511628211
	}
	return h
}
func UnH(s string) []byte {
	b, err := hex.DecodeString(s)
	if err != nil {
		return nil
	}
	return b
}
