// Package libbuild builds signed structures through the library's own
// constructors from generator specs (used where a check needs bytes that the
// library itself signed).
package libbuild

import (
	stded "crypto/ed25519"
	"fmt"
	"time"

	"github.com/go-i2p/common/data"
	"github.com/go-i2p/common/destination"
	"github.com/go-i2p/common/encrypted_leaseset"
	"github.com/go-i2p/common/lease"
	"github.com/go-i2p/common/lease_set"
	"github.com/go-i2p/common/lease_set2"
	"github.com/go-i2p/common/offline_signature"
	"github.com/go-i2p/common/router_address"
	"github.com/go-i2p/common/router_info"
	elgamal "github.com/go-i2p/crypto/elg"

	"verif/internal/gen"
	"verif/internal/libkeys"
	"verif/internal/model"
)

func PairsToMap(p gen.Pairs) map[string]string {
	m := map[string]string{}
	for _, kv := range p.Build() {
		m[string(kv.K)] = string(kv.V)
	}
	return m
}

func Dest(id model.Ident) (destination.Destination, error) {
	if id.Cert.Type == 5 {
		d, err := libkeys.Dest(id)
		if err != nil {
			return destination.Destination{}, err
		}
		return *d, nil
	}
	return libkeys.ParsedDest(id)
}

// Offline creates the offline block through the library (Ed25519-family identity key).
func Offline(o *gen.OfflineSpec, idType int, idKey *model.SignKey) (*offline_signature.OfflineSignature, *model.SignKey, error) {
	tk := model.NewSignKey(o.TType, o.Seed)
	if tk == nil {
		return nil, nil, fmt.Errorf("no key pair for transient type %d", o.TType)
	}
	off, err := offline_signature.CreateOfflineSignature(o.Expires|1, uint16(o.TType), tk.Pub, stded.PrivateKey(idKey.Priv), uint16(idType))
	if err != nil {
		return nil, nil, err
	}
	return &off, tk, nil
}

// RouterInfo builds and signs through NewRouterInfo (Ed25519 identities).
func RouterInfo(s gen.RouterInfoSpec) ([]byte, error) {
	id, key := s.Ident.Build()
	rid, err := libkeys.RouterIdent(id)
	if err != nil {
		return nil, err
	}
	var addrs []*router_address.RouterAddress
	for _, a := range s.Addrs {
		ma := a.Build()
		ra, err := router_address.NewRouterAddress(ma.Cost, time.Unix(0, 0), string(ma.Style), PairsToMap(a.Options))
		if err != nil {
			return nil, err
		}
		addrs = append(addrs, ra)
	}
	priv, err := libkeys.SigPriv(key)
	if err != nil {
		return nil, err
	}
	ri, err := router_info.NewRouterInfo(rid, time.UnixMilli(int64(s.Published)), addrs, PairsToMap(s.Options), priv, 7)
	if err != nil {
		return nil, err
	}
	return ri.Bytes()
}

// LeaseSet builds and signs through NewLeaseSet.
func LeaseSet(s gen.LeaseSetSpec) ([]byte, error) {
	id, key := s.Dest.Build()
	m, _ := s.Build()
	dest, err := Dest(id)
	if err != nil {
		return nil, err
	}
	var ek elgamal.ElgPublicKey
	copy(ek[:], m.EncKey)
	rk, err := libkeys.SigPub(id.SigType, m.SigKey)
	if err != nil {
		return nil, err
	}
	var leases []lease.Lease
	for _, l := range m.Leases {
		var x lease.Lease
		copy(x[:], l.Encode())
		leases = append(leases, x)
	}
	priv, err := libkeys.SigPriv(key)
	if err != nil {
		return nil, err
	}
	ls, err := lease_set.NewLeaseSet(dest, ek, rk, leases, priv)
	if err != nil {
		return nil, err
	}
	return ls.Bytes()
}

// LS2 builds and signs through NewLeaseSet2 (offline block via CreateOfflineSignature).
func LS2(s gen.LS2Spec) ([]byte, error) {
	id, key := s.Header.Dest.Build()
	dest, err := Dest(id)
	if err != nil {
		return nil, err
	}
	flags := s.Header.Flags &^ 1
	var off *offline_signature.OfflineSignature
	signer := key
	if s.Header.Offline != nil {
		var tk *model.SignKey
		if off, tk, err = Offline(s.Header.Offline, id.SigType, key); err != nil {
			return nil, err
		}
		signer, flags = tk, flags|1
	}
	var opts data.Mapping
	if len(s.Options) > 0 {
		mp, err := data.GoMapToMapping(PairsToMap(s.Options))
		if err != nil {
			return nil, err
		}
		opts = *mp
	}
	var keys []lease_set2.EncryptionKey
	for _, k := range s.Keys {
		mk := k.Build()
		keys = append(keys, lease_set2.EncryptionKey{KeyType: uint16(mk.Type), KeyLen: uint16(mk.Len), KeyData: mk.Data})
	}
	var leases []lease.Lease2
	for _, l := range s.Leases {
		var x lease.Lease2
		copy(x[:], l.Build().Encode())
		leases = append(leases, x)
	}
	priv, err := libkeys.SigPriv(signer)
	if err != nil {
		return nil, err
	}
	ls, err := lease_set2.NewLeaseSet2(dest, s.Header.Published, s.Header.Expires, flags, off, opts, keys, leases, priv)
	if err != nil {
		return nil, err
	}
	return ls.Bytes()
}

// ELS builds and signs through NewEncryptedLeaseSet.
func ELS(s gen.ELSSpec) ([]byte, error) {
	bk := model.NewSignKey(s.SigType, s.KeySeed)
	flags := s.Flags &^ 1
	var off *offline_signature.OfflineSignature
	signer := bk
	if s.Offline != nil {
		o, tk, err := Offline(s.Offline, s.SigType, bk)
		if err != nil {
			return nil, err
		}
		off, signer, flags = o, tk, flags|1
	}
	els, err := encrypted_leaseset.NewEncryptedLeaseSet(uint16(s.SigType), bk.Pub, s.Published, s.Expires, flags, off, model.Fill(s.InnerLen, s.InnerSeed), stded.PrivateKey(signer.Priv))
	if err != nil {
		return nil, err
	}
	return els.Bytes()
}
