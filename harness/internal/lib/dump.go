package lib

import (
	"fmt"
	"reflect"
	"sort"
	"strings"
	"time"
)

// Dump renders values deterministically, following pointers and interfaces
// (no addresses), so that two results can be compared as strings.
func Dump(vals ...reflect.Value) string {
	var sb strings.Builder
	for _, v := range vals {
		dumpVal(&sb, v, 0)
		sb.WriteString("|")
	}
	return sb.String()
}

func dumpVal(sb *strings.Builder, v reflect.Value, depth int) {
	if depth > 12 {
		sb.WriteString("<deep>")
		return
	}
	if !v.IsValid() {
		sb.WriteString("<invalid>")
		return
	}
	if v.CanInterface() {
		switch x := v.Interface().(type) {
		case time.Time:
			fmt.Fprintf(sb, "time(%d)", x.UnixNano())
			return
		case error:
			if x == nil {
				sb.WriteString("err(nil)")
			} else {
				sb.WriteString("err(set)")
			}
			return
		}
	}
	switch v.Kind() {
	case reflect.Ptr, reflect.Interface:
		if v.IsNil() {
			sb.WriteString("nil")
			return
		}
		if v.Kind() == reflect.Interface && v.CanInterface() {
			if b, ok := v.Interface().(interface{ Bytes() []byte }); ok {
				fmt.Fprintf(sb, "%T{%x}", v.Interface(), b.Bytes())
				return
			}
		}
		dumpVal(sb, v.Elem(), depth+1)
	case reflect.Slice:
		if v.Type().Elem().Kind() == reflect.Uint8 {
			fmt.Fprintf(sb, "[%x]", v.Bytes())
			return
		}
		sb.WriteString("[")
		for i := 0; i < v.Len(); i++ {
			dumpVal(sb, v.Index(i), depth+1)
			sb.WriteString(",")
		}
		sb.WriteString("]")
	case reflect.Array:
		for i := 0; i < v.Len(); i++ {
			dumpVal(sb, v.Index(i), depth+1)
			sb.WriteString(".")
		}
	case reflect.Struct:
		sb.WriteString(v.Type().String() + "{")
		for i := 0; i < v.NumField(); i++ {
			sb.WriteString(v.Type().Field(i).Name + ":")
			dumpVal(sb, v.Field(i), depth+1)
			sb.WriteString(";")
		}
		sb.WriteString("}")
	case reflect.String:
		fmt.Fprintf(sb, "%q", v.String())
	case reflect.Bool:
		fmt.Fprintf(sb, "%v", v.Bool())
	case reflect.Int, reflect.Int8, reflect.Int16, reflect.Int32, reflect.Int64:
		fmt.Fprintf(sb, "%d", v.Int())
	case reflect.Uint, reflect.Uint8, reflect.Uint16, reflect.Uint32, reflect.Uint64, reflect.Uintptr:
		fmt.Fprintf(sb, "%d", v.Uint())
	case reflect.Map:
		keys := v.MapKeys()
		sort.Slice(keys, func(i, j int) bool { return fmt.Sprint(keys[i]) < fmt.Sprint(keys[j]) })
		for _, k := range keys {
			dumpVal(sb, k, depth+1)
			sb.WriteString("=>")
			dumpVal(sb, v.MapIndex(k), depth+1)
		}
	default:
		fmt.Fprintf(sb, "<%s>", v.Kind())
	}
}
