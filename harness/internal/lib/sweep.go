package lib

import (
	"fmt"
	"reflect"
	"strings"
	"time"
)

const commonPkg = "github.com/go-i2p/common"

// Sweep calls exported methods of a value by reflection.
type Sweep struct {
	// Args supplies an argument of the given type; ok=false skips the method.
	Args func(t reflect.Type, idx int) (reflect.Value, bool)
	// OnResult sees every completed call.
	OnResult func(path string, out []reflect.Value)
	// MaxDepth: how far returned library values are swept in turn.
	MaxDepth int
	// SkipNames: method names never called (documented mutators etc.).
	SkipNames map[string]bool

	Calls   int
	Skipped map[string]bool
	Panics  []string
	visited int
}

// DefaultArgs generates arguments for the parameter kinds the library uses.
func DefaultArgs(seed int) func(t reflect.Type, idx int) (reflect.Value, bool) {
	return func(t reflect.Type, idx int) (reflect.Value, bool) {
		n := seed + idx
		switch t.Kind() {
		case reflect.Int, reflect.Int8, reflect.Int16, reflect.Int32, reflect.Int64:
			vals := []int64{0, 1, -1, 2, 7, 16, 255, 65535, 1 << 40}
			v := reflect.New(t).Elem()
			x := vals[n%len(vals)]
			if v.OverflowInt(x) {
				x = 1
			}
			v.SetInt(x)
			return v, true
		case reflect.Uint, reflect.Uint8, reflect.Uint16, reflect.Uint32, reflect.Uint64:
			vals := []uint64{0, 1, 3, 5, 7, 255, 65535}
			v := reflect.New(t).Elem()
			x := vals[n%len(vals)]
			if v.OverflowUint(x) {
				x = 1
			}
			v.SetUint(x)
			return v, true
		case reflect.String:
			vals := []string{"", "host", "caps", "x", "router.version", strings.Repeat("k", 300)}
			v := reflect.New(t).Elem()
			v.SetString(vals[n%len(vals)])
			return v, true
		case reflect.Bool:
			return reflect.ValueOf(n%2 == 0).Convert(t), true
		case reflect.Slice:
			if t.Elem().Kind() == reflect.Uint8 {
				lens := []int{0, 1, 4, 8, 16, 32, 33, 64, 400}
				b := make([]byte, lens[n%len(lens)])
				for i := range b {
					b[i] = byte(i*7 + n)
				}
				if len(b) > 0 && n%3 == 0 {
					b[0] = byte(len(b) - 1) // looks like an I2PString
				}
				return reflect.ValueOf(b).Convert(t), true
			}
		case reflect.Array:
			if t.Elem().Kind() == reflect.Uint8 {
				v := reflect.New(t).Elem()
				for i := 0; i < v.Len(); i++ {
					v.Index(i).SetUint(uint64(byte(i + n)))
				}
				return v, true
			}
		case reflect.Struct:
			if t == reflect.TypeOf(time.Time{}) {
				ts := []time.Time{{}, time.Unix(0, 0), time.Unix(1700000000, 0), time.Unix(1<<33, 5)}
				return reflect.ValueOf(ts[n%len(ts)]), true
			}
			if strings.HasPrefix(t.PkgPath(), commonPkg) {
				return reflect.New(t).Elem(), true // zero value of a library struct
			}
		case reflect.Ptr:
			if strings.HasPrefix(t.Elem().PkgPath(), commonPkg) {
				if n%2 == 0 {
					return reflect.Zero(t), true // nil pointer
				}
				return reflect.New(t.Elem()), true
			}
		}
		return reflect.Value{}, false
	}
}

// Run sweeps v (and, up to MaxDepth, library values its methods return).
func (s *Sweep) Run(path string, v any) {
	if s.Skipped == nil {
		s.Skipped = map[string]bool{}
	}
	s.run(path, reflect.ValueOf(v), 0)
}

func isLibType(t reflect.Type) bool {
	for t.Kind() == reflect.Ptr || t.Kind() == reflect.Slice {
		t = t.Elem()
	}
	return strings.HasPrefix(t.PkgPath(), commonPkg)
}

func (s *Sweep) run(path string, v reflect.Value, depth int) {
	if !v.IsValid() || s.visited > 400 {
		return
	}
	s.visited++
	if v.Kind() == reflect.Ptr && v.IsNil() {
		return
	}
	t := v.Type()
	// make the value addressable so that pointer-receiver methods are reachable
	var recv reflect.Value
	if v.Kind() == reflect.Ptr {
		recv = v
	} else {
		p := reflect.New(t)
		p.Elem().Set(v)
		recv = p
	}
	rt := recv.Type()
	for i := 0; i < rt.NumMethod(); i++ {
		m := rt.Method(i)
		name := path + "." + m.Name
		if s.SkipNames[m.Name] {
			s.Skipped[name+" (listed)"] = true
			continue
		}
		mt := m.Type
		args := []reflect.Value{recv}
		ok := true
		for a := 1; a < mt.NumIn(); a++ {
			if mt.IsVariadic() {
				ok = false
				break
			}
			if s.Args == nil {
				ok = false
				break
			}
			av, good := s.Args(mt.In(a), a+i)
			if !good {
				ok = false
				break
			}
			args = append(args, av)
		}
		if !ok {
			s.Skipped[rt.String()+"."+m.Name] = true
			continue
		}
		out, perr := safeCall(m.Func, args)
		s.Calls++
		if perr != "" {
			s.Panics = append(s.Panics, fmt.Sprintf("%s: %s", name, perr))
			continue
		}
		if s.OnResult != nil {
			s.OnResult(name, out)
		}
		if depth < s.MaxDepth {
			for _, o := range out {
				if !o.IsValid() {
					continue
				}
				ot := o.Type()
				if !isLibType(ot) {
					continue
				}
				switch o.Kind() {
				case reflect.Slice:
					for j := 0; j < o.Len() && j < 3; j++ {
						s.run(fmt.Sprintf("%s()[%d]", name, j), o.Index(j), depth+1)
					}
				case reflect.Ptr:
					if !o.IsNil() {
						s.run(name+"()", o, depth+1)
					}
				case reflect.Struct, reflect.Array:
					s.run(name+"()", o, depth+1)
				}
			}
		}
	}
}

func safeCall(f reflect.Value, args []reflect.Value) (out []reflect.Value, perr string) {
	defer func() {
		if x := recover(); x != nil {
			perr = fmt.Sprintf("panic: %v", x)
		}
	}()
	return f.Call(args), ""
}

// SkippedList returns the sorted-ish list of skipped methods.
func (s *Sweep) SkippedList() []string {
	var out []string
	for k := range s.Skipped {
		out = append(out, k)
	}
	return out
}

// Serialise calls the value's own serialiser again (Bytes, else Data) by
// reflection. ok=false when the value has no such method or it has another shape.
func Serialise(v any) (b []byte, err error, ok bool) {
	rv := reflect.ValueOf(v)
	if !rv.IsValid() {
		return nil, nil, false
	}
	if rv.Kind() != reflect.Ptr {
		p := reflect.New(rv.Type())
		p.Elem().Set(rv)
		rv = p
	} else if rv.IsNil() {
		return nil, nil, false
	}
	for _, name := range []string{"Bytes", "Data"} {
		m := rv.MethodByName(name)
		if !m.IsValid() || m.Type().NumIn() != 0 || m.Type().NumOut() < 1 || m.Type().NumOut() > 2 {
			continue
		}
		var out []reflect.Value
		func() {
			defer func() {
				if x := recover(); x != nil {
					err = fmt.Errorf("panic: %v", x)
				}
			}()
			out = m.Call(nil)
		}()
		if err != nil {
			return nil, err, true
		}
		o := out[0]
		switch {
		case o.Kind() == reflect.Slice && o.Type().Elem().Kind() == reflect.Uint8:
			b = append([]byte{}, o.Bytes()...)
		case o.Kind() == reflect.Array && o.Type().Elem().Kind() == reflect.Uint8:
			b = make([]byte, o.Len())
			for i := range b {
				b[i] = byte(o.Index(i).Uint())
			}
		default:
			continue
		}
		if len(out) == 2 {
			if e, isErr := out[1].Interface().(error); isErr && e != nil {
				err = e
			}
		}
		return b, err, true
	}
	return nil, nil, false
}
