package lib

import "verif/internal/model"

// ModelExtent returns the number of bytes the independent model says the
// structure read by entry occupies at the start of in. ok=false: the model
// does not decode the input (or has no decoder for the entry).
func ModelExtent(entry string, in []byte, typ int) (int, bool) {
	fixed := func(n int) (int, bool) { return n, len(in) >= n }
	switch entry {
	case "data.ReadInteger", "data.NewInteger":
		if typ < 1 || typ > 8 {
			return 0, false
		}
		return fixed(typ)
	case "data.ReadDate", "data.NewDate":
		return fixed(8)
	case "data.ReadHash", "session_key.ReadSessionKey", "session_key.NewSessionKey", "session_tag.ReadSessionTag", "session_tag.NewSessionTag":
		return fixed(32)
	case "session_tag.ReadECIESSessionTag", "session_tag.NewECIESSessionTag":
		return fixed(8)
	case "lease.ReadLease", "lease.NewLeaseFromBytes":
		return fixed(44)
	case "lease.ReadLease2", "lease.NewLease2FromBytes":
		return fixed(40)
	case "data.ReadI2PString":
		if len(in) == 0 {
			return 0, false
		}
		return fixed(1 + int(in[0]))
	case "data.ReadMapping", "data.NewMapping":
		_, n, dup, err := model.DecodeMapping(in)
		return n, err == nil && !dup
	case "certificate.ReadCertificate":
		_, n, err := model.DecodeCert(in)
		return n, err == nil
	case "key_certificate.NewKeyCertificate":
		c, n, err := model.DecodeCert(in)
		return n, err == nil && c.Type == 5 && len(c.Payload) >= 4
	case "keys_and_cert.ReadKeysAndCert", "keys_and_cert.ReadKeysAndCertElgAndEd25519", "keys_and_cert.ReadKeysAndCertX25519AndEd25519",
		"destination.ReadDestination", "destination.NewDestinationFromBytes", "router_identity.ReadRouterIdentity",
		"router_identity.NewRouterIdentityFromBytes", "lease_set.ReadDestinationFromLeaseSet":
		_, n, err := model.DecodeIdent(in)
		return n, err == nil
	case "signature.ReadSignature", "signature.NewSignature":
		n, ok := model.SigLen[typ]
		if !ok {
			return 0, false
		}
		return fixed(n)
	case "offline_signature.ReadOfflineSignature":
		_, n, err := model.DecodeOffline(in, typ)
		return n, err == nil
	case "lease_set.ReadLeaseSet":
		_, n, err := model.DecodeLeaseSet(in)
		return n, err == nil
	case "lease_set2.ReadLeaseSet2":
		n, err := model.LS2Extent(in)
		return n, err == nil
	case "meta_leaseset.ReadMetaLeaseSet":
		_, n, err := model.DecodeMetaLS(in)
		return n, err == nil
	case "encrypted_leaseset.ReadEncryptedLeaseSet":
		_, n, err := model.DecodeELS(in)
		return n, err == nil
	case "router_address.ReadRouterAddress":
		_, n, err := model.DecodeRouterAddr(in)
		return n, err == nil
	case "router_info.ReadRouterInfo":
		_, n, err := model.DecodeRouterInfo(in)
		return n, err == nil
	}
	return 0, false
}
