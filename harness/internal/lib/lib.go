// Package lib adapts the exported parser entry points of go-i2p/common to one
// uniform shape so that the property packages can sweep "every parser".
package lib

import (
	"strings"

	"github.com/go-i2p/common/certificate"
	"github.com/go-i2p/common/data"
	"github.com/go-i2p/common/destination"
	"github.com/go-i2p/common/encrypted_leaseset"
	"github.com/go-i2p/common/key_certificate"
	"github.com/go-i2p/common/keys_and_cert"
	"github.com/go-i2p/common/lease"
	"github.com/go-i2p/common/lease_set"
	"github.com/go-i2p/common/lease_set2"
	"github.com/go-i2p/common/meta_leaseset"
	"github.com/go-i2p/common/offline_signature"
	"github.com/go-i2p/common/router_address"
	"github.com/go-i2p/common/router_identity"
	"github.com/go-i2p/common/router_info"
	"github.com/go-i2p/common/session_key"
	"github.com/go-i2p/common/session_tag"
	"github.com/go-i2p/common/signature"
)

// Result of running one entry point on one input.
type Result struct {
	Accepted bool   // per the acceptance rule of the entry point (DESIGN 3.4)
	Err      error  // error (or first error) reported by the parser
	Serial   []byte // serialisation of the returned value (valid if SerErr == nil)
	SerErr   error
	Rem      []byte // returned remainder (HasRem entries only)
	Value    any    // the returned value (pointer where methods need one)
}

// Entry is one parser entry point.
type Entry struct {
	Name    string
	HasRem  bool // returns a remainder
	HasType bool // takes a type/size argument
	Exact   bool // accepts only input of exactly the structure's length (no remainder concept)
	Group   string
	Parse   func(in []byte, typ int) Result
}

// NoSerial: entries return the parsed value without calling its serialiser (C18
// needs values no method has been called on yet: a lazily written field is only
// visible on first use). Serial is then empty.
var NoSerial bool

const trailingWarning = "data exists beyond length of mapping"

// MappingAccepted: empty error list or only the trailing-data warning.
func MappingAccepted(errs []error) bool {
	for _, e := range errs {
		if e == nil || !strings.Contains(e.Error(), trailingWarning) {
			return false
		}
	}
	return true
}

func firstErr(errs []error) error {
	for _, e := range errs {
		if e != nil && !strings.Contains(e.Error(), trailingWarning) {
			return e
		}
	}
	return nil
}

func kacResult(k *keys_and_cert.KeysAndCert, rem []byte, err error) Result {
	r := Result{Err: err, Rem: rem, Value: k}
	if err != nil || k == nil {
		return r
	}
	r.Accepted = true
	if !NoSerial {
		r.Serial, r.SerErr = k.Bytes()
	}
	return r
}

// Entries is the table of Appendix A of DESIGN.md.
var Entries = []Entry{
	// ---- data -------------------------------------------------------------
	{Name: "data.ReadInteger", HasRem: true, HasType: true, Group: "prim", Parse: func(in []byte, n int) Result {
		i, rem := data.ReadInteger(in, n)
		return Result{Accepted: n >= 1 && n <= 8 && len(i) == n, Serial: []byte(i), Rem: rem, Value: i}
	}},
	{Name: "data.NewInteger", HasRem: true, HasType: true, Group: "prim", Parse: func(in []byte, n int) Result {
		i, rem, err := data.NewInteger(in, n)
		r := Result{Err: err, Rem: rem, Value: i}
		if err == nil && i != nil {
			r.Accepted = n >= 1 && n <= 8 && len(*i) == n
			r.Serial = []byte(*i)
		}
		return r
	}},
	{Name: "data.NewIntegerFromBytes", Exact: true, Group: "prim", Parse: func(in []byte, _ int) Result {
		i, err := data.NewIntegerFromBytes(in)
		return Result{Accepted: err == nil, Err: err, Serial: []byte(i), Value: i}
	}},
	{Name: "data.ReadDate", HasRem: true, Group: "prim", Parse: func(in []byte, _ int) Result {
		d, rem, err := data.ReadDate(in)
		return Result{Accepted: err == nil, Err: err, Serial: d.Bytes(), Rem: rem, Value: d}
	}},
	{Name: "data.NewDate", HasRem: true, Group: "prim", Parse: func(in []byte, _ int) Result {
		d, rem, err := data.NewDate(in)
		r := Result{Accepted: err == nil && d != nil, Err: err, Rem: rem, Value: d}
		if d != nil {
			if !NoSerial {
				r.Serial = d.Bytes()
			}
		}
		return r
	}},
	{Name: "data.ReadHash", HasRem: true, Group: "prim", Parse: func(in []byte, _ int) Result {
		h, rem, err := data.ReadHash(in)
		b := h.Bytes()
		return Result{Accepted: err == nil, Err: err, Serial: b[:], Rem: rem, Value: h}
	}},
	{Name: "data.NewHashFromSlice", Exact: true, Group: "prim", Parse: func(in []byte, _ int) Result {
		h, err := data.NewHashFromSlice(in)
		b := h.Bytes()
		return Result{Accepted: err == nil, Err: err, Serial: b[:], Value: h}
	}},
	{Name: "data.ReadI2PString", HasRem: true, Group: "prim", Parse: func(in []byte, _ int) Result {
		s, rem, err := data.ReadI2PString(in)
		return Result{Accepted: err == nil, Err: err, Serial: []byte(s), Rem: rem, Value: s}
	}},
	{Name: "data.NewI2PStringFromBytes", Exact: true, Group: "prim", Parse: func(in []byte, _ int) Result {
		s, err := data.NewI2PStringFromBytes(in)
		return Result{Accepted: err == nil, Err: err, Serial: []byte(s), Value: s}
	}},
	{Name: "data.ReadMapping", HasRem: true, Group: "mapping", Parse: func(in []byte, _ int) Result {
		m, rem, errs := data.ReadMapping(in)
		r := Result{Accepted: MappingAccepted(errs), Err: firstErr(errs), Rem: rem, Value: &m}
		if !NoSerial {
			r.Serial = m.Data()
		}
		return r
	}},
	{Name: "data.NewMapping", HasRem: true, Group: "mapping", Parse: func(in []byte, _ int) Result {
		m, rem, errs := data.NewMapping(in)
		r := Result{Accepted: MappingAccepted(errs) && m != nil, Err: firstErr(errs), Rem: rem, Value: m}
		if m != nil {
			if !NoSerial {
				r.Serial = m.Data()
			}
		}
		return r
	}},
	// ---- certificate / key certificate -----------------------------------------
	{Name: "certificate.ReadCertificate", HasRem: true, Group: "cert", Parse: func(in []byte, _ int) Result {
		c, rem, err := certificate.ReadCertificate(in)
		r := Result{Accepted: err == nil && c != nil, Err: err, Rem: rem, Value: c}
		if c != nil {
			if !NoSerial {
				r.Serial = c.Bytes()
			}
		}
		return r
	}},
	{Name: "key_certificate.NewKeyCertificate", HasRem: true, Group: "cert", Parse: func(in []byte, _ int) Result {
		c, rem, err := key_certificate.NewKeyCertificate(in)
		r := Result{Accepted: err == nil && c != nil, Err: err, Rem: rem, Value: c}
		if c != nil {
			if !NoSerial {
				r.Serial = c.Bytes()
			}
		}
		return r
	}},
	// ---- keys and cert family ----------------------------------------------------
	{Name: "keys_and_cert.ReadKeysAndCert", HasRem: true, Group: "ident", Parse: func(in []byte, _ int) Result {
		return kacResult(keys_and_cert.ReadKeysAndCert(in))
	}},
	{Name: "keys_and_cert.ReadKeysAndCertElgAndEd25519", HasRem: true, Group: "ident", Parse: func(in []byte, _ int) Result {
		return kacResult(keys_and_cert.ReadKeysAndCertElgAndEd25519(in))
	}},
	{Name: "keys_and_cert.ReadKeysAndCertX25519AndEd25519", HasRem: true, Group: "ident", Parse: func(in []byte, _ int) Result {
		return kacResult(keys_and_cert.ReadKeysAndCertX25519AndEd25519(in))
	}},
	{Name: "destination.ReadDestination", HasRem: true, Group: "ident", Parse: func(in []byte, _ int) Result {
		d, rem, err := destination.ReadDestination(in)
		r := Result{Err: err, Rem: rem, Value: &d}
		if err == nil {
			r.Accepted = true
			if !NoSerial {
				r.Serial, r.SerErr = d.Bytes()
			}
		}
		return r
	}},
	{Name: "destination.NewDestinationFromBytes", HasRem: true, Group: "ident", Parse: func(in []byte, _ int) Result {
		d, rem, err := destination.NewDestinationFromBytes(in)
		r := Result{Err: err, Rem: rem, Value: d}
		if err == nil && d != nil {
			r.Accepted = true
			if !NoSerial {
				r.Serial, r.SerErr = d.Bytes()
			}
		}
		return r
	}},
	{Name: "router_identity.ReadRouterIdentity", HasRem: true, Group: "ident", Parse: func(in []byte, _ int) Result {
		d, rem, err := router_identity.ReadRouterIdentity(in)
		r := Result{Err: err, Rem: rem, Value: d}
		if err == nil && d != nil {
			r.Accepted = true
			if !NoSerial {
				r.Serial, r.SerErr = d.Bytes()
			}
		}
		return r
	}},
	{Name: "router_identity.NewRouterIdentityFromBytes", HasRem: true, Group: "ident", Parse: func(in []byte, _ int) Result {
		d, rem, err := router_identity.NewRouterIdentityFromBytes(in)
		r := Result{Err: err, Rem: rem, Value: d}
		if err == nil && d != nil {
			r.Accepted = true
			if !NoSerial {
				r.Serial, r.SerErr = d.Bytes()
			}
		}
		return r
	}},
	// ---- signature -------------------------------------------------------------
	{Name: "signature.ReadSignature", HasRem: true, HasType: true, Group: "sig", Parse: func(in []byte, t int) Result {
		s, rem, err := signature.ReadSignature(in, t)
		return Result{Accepted: err == nil, Err: err, Serial: s.Bytes(), Rem: rem, Value: s}
	}},
	{Name: "signature.NewSignature", HasRem: true, HasType: true, Group: "sig", Parse: func(in []byte, t int) Result {
		s, rem, err := signature.NewSignature(in, t)
		r := Result{Accepted: err == nil && s != nil, Err: err, Rem: rem, Value: s}
		if s != nil {
			if !NoSerial {
				r.Serial = s.Bytes()
			}
		}
		return r
	}},
	{Name: "signature.NewSignatureFromBytes", Exact: true, HasType: true, Group: "sig", Parse: func(in []byte, t int) Result {
		s, err := signature.NewSignatureFromBytes(in, t)
		return Result{Accepted: err == nil, Err: err, Serial: s.Bytes(), Value: s}
	}},
	{Name: "offline_signature.ReadOfflineSignature", HasRem: true, HasType: true, Group: "sig", Parse: func(in []byte, t int) Result {
		o, rem, err := offline_signature.ReadOfflineSignature(in, uint16(t))
		r := Result{Accepted: err == nil, Err: err, Rem: rem, Value: &o}
		if err == nil {
			if !NoSerial {
				r.Serial = o.Bytes()
			}
		}
		return r
	}},
	// ---- leases --------------------------------------------------------------
	{Name: "lease.ReadLease", HasRem: true, Group: "lease", Parse: func(in []byte, _ int) Result {
		l, rem, err := lease.ReadLease(in)
		return Result{Accepted: err == nil, Err: err, Serial: l.Bytes(), Rem: rem, Value: l}
	}},
	{Name: "lease.NewLeaseFromBytes", HasRem: true, Group: "lease", Parse: func(in []byte, _ int) Result {
		l, rem, err := lease.NewLeaseFromBytes(in)
		r := Result{Accepted: err == nil && l != nil, Err: err, Rem: rem, Value: l}
		if l != nil {
			if !NoSerial {
				r.Serial = l.Bytes()
			}
		}
		return r
	}},
	{Name: "lease.ReadLease2", HasRem: true, Group: "lease", Parse: func(in []byte, _ int) Result {
		l, rem, err := lease.ReadLease2(in)
		return Result{Accepted: err == nil, Err: err, Serial: l.Bytes(), Rem: rem, Value: l}
	}},
	{Name: "lease.NewLease2FromBytes", HasRem: true, Group: "lease", Parse: func(in []byte, _ int) Result {
		l, rem, err := lease.NewLease2FromBytes(in)
		r := Result{Accepted: err == nil && l != nil, Err: err, Rem: rem, Value: l}
		if l != nil {
			if !NoSerial {
				r.Serial = l.Bytes()
			}
		}
		return r
	}},
	// ---- lease sets --------------------------------------------------------------
	{Name: "lease_set.ReadLeaseSet", Group: "leaseset", Parse: func(in []byte, _ int) Result {
		ls, err := lease_set.ReadLeaseSet(in)
		r := Result{Err: err, Value: &ls}
		if err == nil {
			r.Accepted = true
			if !NoSerial {
				r.Serial, r.SerErr = ls.Bytes()
			}
		}
		return r
	}},
	{Name: "lease_set.ReadDestinationFromLeaseSet", HasRem: true, Group: "leaseset", Parse: func(in []byte, _ int) Result {
		d, rem, err := lease_set.ReadDestinationFromLeaseSet(in)
		r := Result{Err: err, Rem: rem, Value: &d}
		if err == nil {
			r.Accepted = true
			if !NoSerial {
				r.Serial, r.SerErr = d.Bytes()
			}
		}
		return r
	}},
	{Name: "lease_set2.ReadLeaseSet2", HasRem: true, Group: "leaseset", Parse: func(in []byte, _ int) Result {
		ls, rem, err := lease_set2.ReadLeaseSet2(in)
		r := Result{Err: err, Rem: rem, Value: &ls}
		if err == nil {
			r.Accepted = true
			if !NoSerial {
				r.Serial, r.SerErr = ls.Bytes()
			}
		}
		return r
	}},
	{Name: "meta_leaseset.ReadMetaLeaseSet", HasRem: true, Group: "leaseset", Parse: func(in []byte, _ int) Result {
		ls, rem, err := meta_leaseset.ReadMetaLeaseSet(in)
		r := Result{Err: err, Rem: rem, Value: &ls}
		if err == nil {
			r.Accepted = true
			if !NoSerial {
				r.Serial, r.SerErr = ls.Bytes()
			}
		}
		return r
	}},
	{Name: "encrypted_leaseset.ReadEncryptedLeaseSet", HasRem: true, Group: "leaseset", Parse: func(in []byte, _ int) Result {
		ls, rem, err := encrypted_leaseset.ReadEncryptedLeaseSet(in)
		r := Result{Err: err, Rem: rem, Value: &ls}
		if err == nil {
			r.Accepted = true
			if !NoSerial {
				r.Serial, r.SerErr = ls.Bytes()
			}
		}
		return r
	}},
	// ---- router address / info ------------------------------------------------------
	{Name: "router_address.ReadRouterAddress", HasRem: true, Group: "router", Parse: func(in []byte, _ int) Result {
		a, rem, err := router_address.ReadRouterAddress(in)
		r := Result{Err: err, Rem: rem, Value: &a}
		if err == nil {
			r.Accepted = true
			if !NoSerial {
				r.Serial = a.Bytes()
			}
		}
		return r
	}},
	{Name: "router_info.ReadRouterInfo", HasRem: true, Group: "router", Parse: func(in []byte, _ int) Result {
		ri, rem, err := router_info.ReadRouterInfo(in)
		r := Result{Err: err, Rem: rem, Value: &ri}
		if err == nil {
			r.Accepted = true
			if !NoSerial {
				r.Serial, r.SerErr = ri.Bytes()
			}
		}
		return r
	}},
	// ---- session key / tags ----------------------------------------------------------
	{Name: "session_key.ReadSessionKey", HasRem: true, Group: "session", Parse: func(in []byte, _ int) Result {
		k, rem, err := session_key.ReadSessionKey(in)
		return Result{Accepted: err == nil, Err: err, Serial: k.Bytes(), Rem: rem, Value: k}
	}},
	{Name: "session_key.NewSessionKey", HasRem: true, Group: "session", Parse: func(in []byte, _ int) Result {
		k, rem, err := session_key.NewSessionKey(in)
		r := Result{Accepted: err == nil && k != nil, Err: err, Rem: rem, Value: k}
		if k != nil {
			if !NoSerial {
				r.Serial = k.Bytes()
			}
		}
		return r
	}},
	{Name: "session_tag.ReadSessionTag", HasRem: true, Group: "session", Parse: func(in []byte, _ int) Result {
		k, rem, err := session_tag.ReadSessionTag(in)
		return Result{Accepted: err == nil, Err: err, Serial: k.Bytes(), Rem: rem, Value: k}
	}},
	{Name: "session_tag.NewSessionTag", HasRem: true, Group: "session", Parse: func(in []byte, _ int) Result {
		k, rem, err := session_tag.NewSessionTag(in)
		r := Result{Accepted: err == nil && k != nil, Err: err, Rem: rem, Value: k}
		if k != nil {
			if !NoSerial {
				r.Serial = k.Bytes()
			}
		}
		return r
	}},
	{Name: "session_tag.NewSessionTagFromBytes", Exact: true, Group: "session", Parse: func(in []byte, _ int) Result {
		k, err := session_tag.NewSessionTagFromBytes(in)
		return Result{Accepted: err == nil, Err: err, Serial: k.Bytes(), Value: k}
	}},
	{Name: "session_tag.ReadECIESSessionTag", HasRem: true, Group: "session", Parse: func(in []byte, _ int) Result {
		k, rem, err := session_tag.ReadECIESSessionTag(in)
		return Result{Accepted: err == nil, Err: err, Serial: k.Bytes(), Rem: rem, Value: k}
	}},
	{Name: "session_tag.NewECIESSessionTag", HasRem: true, Group: "session", Parse: func(in []byte, _ int) Result {
		k, rem, err := session_tag.NewECIESSessionTag(in)
		r := Result{Accepted: err == nil && k != nil, Err: err, Rem: rem, Value: k}
		if k != nil {
			if !NoSerial {
				r.Serial = k.Bytes()
			}
		}
		return r
	}},
	{Name: "session_tag.NewECIESSessionTagFromBytes", Exact: true, Group: "session", Parse: func(in []byte, _ int) Result {
		k, err := session_tag.NewECIESSessionTagFromBytes(in)
		return Result{Accepted: err == nil, Err: err, Serial: k.Bytes(), Value: k}
	}},
}

// Composites are conversions chained behind a parser: further ways to obtain the
// same structure from the same bytes (used by C19 only; not part of Entries).
var Composites = []Entry{
	{Name: "key_certificate.KeyCertificateFromCertificate(certificate.ReadCertificate)", HasRem: true, Group: "cert", Parse: func(in []byte, _ int) Result {
		c, rem, err := certificate.ReadCertificate(in)
		if err != nil || c == nil {
			return Result{Err: err, Rem: rem}
		}
		kc, err := key_certificate.KeyCertificateFromCertificate(c)
		r := Result{Err: err, Rem: rem, Value: kc}
		if err == nil && kc != nil {
			r.Accepted = true
			if !NoSerial {
				r.Serial = kc.Bytes()
			}
		}
		return r
	}},
	{Name: "router_identity.ReadRouterIdentity.AsDestination", HasRem: true, Group: "ident", Parse: func(in []byte, _ int) Result {
		ri, rem, err := router_identity.ReadRouterIdentity(in)
		if err != nil || ri == nil {
			return Result{Err: err, Rem: rem}
		}
		d := ri.AsDestination()
		r := Result{Accepted: true, Rem: rem, Value: &d}
		if !NoSerial {
			r.Serial, r.SerErr = d.Bytes()
		}
		return r
	}},
	{Name: "router_identity.NewRouterIdentityFromKeysAndCert(destination.ReadDestination)", HasRem: true, Group: "ident", Parse: func(in []byte, _ int) Result {
		d, rem, err := destination.ReadDestination(in)
		if err != nil || d.KeysAndCert == nil {
			return Result{Err: err, Rem: rem}
		}
		ri, err := router_identity.NewRouterIdentityFromKeysAndCert(d.KeysAndCert)
		r := Result{Err: err, Rem: rem, Value: ri}
		if err == nil && ri != nil {
			r.Accepted = true
			if !NoSerial {
				r.Serial, r.SerErr = ri.Bytes()
			}
		}
		return r
	}},
	{Name: "destination.NewDestination(keys_and_cert.ReadKeysAndCert)", HasRem: true, Group: "ident", Parse: func(in []byte, _ int) Result {
		k, rem, err := keys_and_cert.ReadKeysAndCert(in)
		if err != nil || k == nil {
			return Result{Err: err, Rem: rem}
		}
		d, err := destination.NewDestination(k)
		r := Result{Err: err, Rem: rem, Value: d}
		if err == nil && d != nil {
			r.Accepted = true
			if !NoSerial {
				r.Serial, r.SerErr = d.Bytes()
			}
		}
		return r
	}},
}

// ByName finds an entry.
func ByName(name string) *Entry {
	for i := range Entries {
		if Entries[i].Name == name {
			return &Entries[i]
		}
	}
	for i := range Composites {
		if Composites[i].Name == name {
			return &Composites[i]
		}
	}
	return nil
}

// Names lists all entry names.
func Names() []string {
	out := make([]string, len(Entries))
	for i, e := range Entries {
		out[i] = e.Name
	}
	return out
}

// WeightedNames repeats the entries of structures with variable-length parts
// so that uniform sampling spends most cases on them.
func WeightedNames() []string {
	var out []string
	for _, e := range Entries {
		w := 5
		switch e.Group {
		case "prim", "session", "lease":
			w = 1
		case "sig", "cert":
			w = 2
		}
		for i := 0; i < w; i++ {
			out = append(out, e.Name)
		}
	}
	return out
}
