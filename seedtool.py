#!/usr/bin/env python3
"""Helpers for seeded breakages (used while building /verif; not part of any check).

  seedtool.py confirm <out-dir> <k> <worktree>   confirm patch k of a sub-agent's output in a scratch worktree:
                                                 suite passes with the patch, demo fails with it and passes without
  seedtool.py run <patch> <ID> [<ID> ...]        apply the patch to a scratch worktree of /repo, run the quick checks against it
  seedtool.py regress [lanes] [seed ...]         every kept seed (/verif/seeded/*/patch.diff) against the quick tier of its
                                                 target check as it stands now; writes seeded/<seed>/final.json
"""
import json
import os
import re
import shutil
import subprocess
import sys
import time

VERIF = os.path.dirname(os.path.abspath(__file__))
GOW = os.path.join(VERIF, "gow")


def sh(cmd, cwd=None, timeout=3600):
    p = subprocess.run(cmd, cwd=cwd, shell=isinstance(cmd, str), stdout=subprocess.PIPE, stderr=subprocess.STDOUT, text=True, timeout=timeout)
    return p.returncode, p.stdout


def demo_files(out, k):
    fs = []
    for f in sorted(os.listdir(out)):
        if f.startswith("demo%d" % k) or f.startswith("demo_%d" % k):
            fs.append(os.path.join(out, f))
    return fs


def place_demo(out, k, wt):
    """Returns (package dir to test, list of files placed)."""
    placed = []
    notes = ""
    np = os.path.join(out, "notes.md")
    if os.path.exists(np):
        notes = open(np, errors="replace").read()
    for f in demo_files(out, k):
        if os.path.isdir(f):
            dst = os.path.join(wt, os.path.basename(f))
            shutil.copytree(f, dst)
            placed.append(dst)
            return dst, placed, "dir"
        src = open(f, errors="replace").read()
        m = re.search(r"^package\s+(\w+)", src, re.M)
        pkg = m.group(1) if m else "main"
        if pkg == "main":
            dst = os.path.join(wt, "zz_demo%d" % k)
            os.makedirs(dst, exist_ok=True)
            shutil.copy(f, os.path.join(dst, "main.go"))
            placed.append(dst)
            return dst, placed, "main"
        base = pkg[:-5] if pkg.endswith("_test") else pkg
        # package directory: prefer one named in notes.md, else the directory with that package name
        cand = None
        for d in sorted(os.listdir(wt)):
            dp = os.path.join(wt, d)
            if os.path.isdir(dp) and d == base:
                cand = dp
        if cand is None:
            for d in sorted(os.listdir(wt)):
                dp = os.path.join(wt, d)
                if os.path.isdir(dp) and any(re.search(r"^package\s+%s\b" % base, open(os.path.join(dp, g), errors="replace").read(), re.M)
                                             for g in os.listdir(dp) if g.endswith(".go")):
                    cand = dp
                    break
        if cand is None:
            cand = os.path.join(wt, "zz_demo%d" % k)
            os.makedirs(cand, exist_ok=True)
        dst = os.path.join(cand, "zz_seed_demo%d_test.go" % k)
        shutil.copy(f, dst)
        placed.append(dst)
        return cand, placed, "test"
    return None, placed, "none"


def run_demo(pkgdir, kind, wt):
    rel = "./" + os.path.relpath(pkgdir, wt)
    if kind == "test":
        extra = ["-race"] if os.environ.get("SEED_RACE") else []
        return sh([GOW, "test", "-vet=off", "-count=1"] + extra + ["-run", "Demo|Seed|demo|seed|Test", rel], cwd=wt, timeout=1200)
    return sh([GOW, "run", rel], cwd=wt, timeout=1200)


def confirm(out, k, wt):
    patch = os.path.join(out, "patch%d.diff" % k)
    res = dict(patch=patch, ok=False)
    sh("git checkout -- . && git clean -fdq", cwd=wt)
    rc, o = sh(["git", "apply", "--check", patch], cwd=wt)
    if rc != 0:
        res["error"] = "patch does not apply: " + o[-500:]
        return res
    sh(["git", "apply", patch], cwd=wt)
    rc, o = sh([GOW, "build", "./..."], cwd=wt)
    if rc != 0:
        res["error"] = "does not build: " + o[-500:]
        sh("git checkout -- . && git clean -fdq", cwd=wt)
        return res
    t0 = time.time()
    rc, o = sh([GOW, "test", "-vet=off", "-count=1", "./..."], cwd=wt, timeout=1800)
    res["suite_rc"] = rc
    res["suite_s"] = round(time.time() - t0)
    if rc != 0:
        res["error"] = "existing suite fails with the patch: " + "\n".join(l for l in o.splitlines() if l.startswith(("--- FAIL", "FAIL")))[:800]
        sh("git checkout -- . && git clean -fdq", cwd=wt)
        return res
    pkgdir, placed, kind = place_demo(out, k, wt)
    if pkgdir is None:
        res["error"] = "no demo file found"
        sh("git checkout -- . && git clean -fdq", cwd=wt)
        return res
    rc_with, o_with = run_demo(pkgdir, kind, wt)
    sh(["git", "apply", "-R", patch], cwd=wt)
    rc_without, o_without = run_demo(pkgdir, kind, wt)
    res.update(demo_kind=kind, demo_dir=os.path.relpath(pkgdir, wt), demo_rc_with=rc_with, demo_rc_without=rc_without)
    res["demo_tail_with"] = o_with[-600:]
    if rc_without != 0:
        res["demo_tail_without"] = o_without[-600:]
    res["ok"] = rc_with != 0 and rc_without == 0
    sh("git checkout -- . && git clean -fdq", cwd=wt)
    return res


def run(patch, ids, wt="/tmp/wt/seedrun"):
    """Runs the quick checks against a scratch worktree of /repo with the patch applied
    (VERIF_REPO), so /repo itself and anything running against it stay untouched."""
    if not os.path.isdir(wt):
        rc, o = sh(["git", "-C", "/repo", "worktree", "add", "-q", "--detach", wt, "HEAD"])
        if rc != 0:
            return dict(error="cannot create worktree: " + o[-300:])
    sh("git checkout -q --detach $(git -C /repo rev-parse HEAD) && git checkout -- . && git clean -fdq", cwd=wt)
    rc, o = sh(["git", "apply", patch], cwd=wt)
    if rc != 0:
        return dict(error="patch does not apply: " + o[-300:])
    out = {}
    env = dict(os.environ, VERIF_REPO=wt)
    try:
        for pid in ids:
            t0 = time.time()
            p = subprocess.run([os.path.join(VERIF, "check"), pid, "quick"], cwd=VERIF, env=env, stdout=subprocess.PIPE, stderr=subprocess.STDOUT, text=True, timeout=3600)
            o = p.stdout
            detail = [l for l in o.splitlines() if l.startswith("VIOLATION-DETAIL")]
            incon = [l for l in o.splitlines() if l.startswith("INCONCLUSIVE")]
            out[pid] = dict(rc=p.returncode, s=round(time.time() - t0), detail=(detail[0][:400] if detail else (incon[0][:300] if incon else "")))
    finally:
        sh("git checkout -- . && git clean -fdq", cwd=wt)
    return out


def regress(lanes, only):
    import glob
    from concurrent.futures import ThreadPoolExecutor
    seeds = sorted(os.path.basename(os.path.dirname(p)) for p in glob.glob(os.path.join(VERIF, "seeded", "*", "patch.diff")))
    if only:
        seeds = [x for x in seeds if x in only or x.split("-")[0] in only]
    chunks = [seeds[i::lanes] for i in range(lanes)]

    def lane(i):
        wt = "/tmp/wt/seedreg%d" % i
        for sd in chunks[i]:
            pid = sd.split("-")[0]
            res = run(os.path.join(VERIF, "seeded", sd, "patch.diff"), [pid], wt)
            v = res.get(pid, {}) if isinstance(res, dict) else {}
            out = dict(seed=sd, check=pid, rc=v.get("rc"), reported=v.get("rc") == 1, seconds=v.get("s"), detail=v.get("detail", res.get("error", "") if isinstance(res, dict) else ""))
            json.dump(out, open(os.path.join(VERIF, "seeded", sd, "final.json"), "w"), indent=1)
            print("%s %s rc=%s %s" % (sd, "REPORTED" if out["reported"] else "** NOT REPORTED **", out["rc"], out["detail"][:110]), flush=True)
        subprocess.run(["git", "-C", "/repo", "worktree", "remove", "--force", wt], stdout=subprocess.DEVNULL, stderr=subprocess.DEVNULL)

    with ThreadPoolExecutor(lanes) as ex:
        list(ex.map(lane, range(lanes)))


if __name__ == "__main__":
    if sys.argv[1] == "confirm":
        print(json.dumps(confirm(sys.argv[2], int(sys.argv[3]), sys.argv[4]), indent=1))
    elif sys.argv[1] == "regress":
        args = sys.argv[2:]
        lanes = int(args.pop(0)) if args and args[0].isdigit() else 2
        regress(lanes, set(args))
    elif sys.argv[1] == "run":
        wt = os.environ.get("SEED_WT", "/tmp/wt/seedrun")
        print(json.dumps(run(os.path.abspath(sys.argv[2]), sys.argv[3:], wt), indent=1))
