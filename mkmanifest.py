#!/usr/bin/env python3
"""Regenerates MANIFEST.json from the table below (keeps it valid at all times)."""
import json, os
V = os.path.dirname(os.path.abspath(__file__))
props = [json.loads(l) for l in open(os.path.join(V, "properties.jsonl"))]
ids = [p["id"] for p in props]

# property -> (technique, level text, level note, design ref)
CLAIMED = {
 "C12": ("rapid property-based testing with a math/big reference oracle + exhaustive enumeration of widths 1-2 and string lengths 0..300",
         "Inverse laws and rejection rules of Integer/Date/String checked on ~475k generated cases per quick run (boundary-directed) plus the complete width-1/2 space; exploration, not proof: wider integers and dates are sampled at boundaries and uniformly.",
         "math/big and time.UnixMilli are trusted; the harness reads only exported API", "DESIGN.md 5/C12"),
 "C13": ("rapid property-based testing against an own bit-level base32/base64 codec; exhaustive enumeration of all inputs <= 2 bytes and of every foreign byte value; native fuzzing of the decoders (thorough)",
         "Encoders compared with an independent bit-level model on every byte string of length <= 2 and ~100k generated ones; decoders classified must-accept / must-reject / grey by the model on ~400k grammar-generated strings per quick run, limits of the Safe variants probed at limit-1/limit/limit+1. Exploration: longer strings are sampled.",
         "The bit-level model in the harness is the reference; Go's encoding/base32|64 are NOT trusted (the check found two leniencies in encoding/base32 that the library inherited).", "DESIGN.md 5/C13"),
 "C11": ("rapid property-based testing against an independent strict mapping codec (round trip + differential), structure-aware mutation of encodings, complete enumeration of tiny maps, native fuzzing of ReadMapping (thorough)",
         "Map->bytes->map identity, canonical order, determinism over 5 conversions, exact size field and limit behaviour on ~60k generated maps per quick run (incl. sizes 65535+-3 and 256..300-byte strings); parser direction on ~150k mutated/arbitrary inputs: anything accepted must re-serialise to the consumed bytes and be accepted by the strict model, anything strictly well-formed must be accepted.",
         "internal/model's strict mapping decoder is the reference; 'parsed without error' = empty error list or only the trailing-data warning the library's own callers filter.", "DESIGN.md 5/C11"),
 "C01": ("rapid property-based testing: round-trip oracle (serialise(parse(x)) == consumed bytes) over all 43 parser entry points, inputs = independent-model encodings + structure-aware mutations + arbitrary bytes; native coverage-guided fuzzing with the same oracle (thorough)",
         "Every accepted input of every parser entry point must re-serialise to the consumed bytes; ~400k generated (entry, input) pairs per quick run with measured acceptance per entry point (hundreds to thousands accepted per entry). Exploration: the input space is sampled, guided by an independent encoder so that accepted non-canonical shapes (excess certificate payload, unsorted/odd mappings, all key-type pairs, offline blocks) are reached.",
         "Self-contained oracle (no model needed for the verdict); ReadLeaseSet has no remainder, its extent is taken from the independent model.", "DESIGN.md 5/C01"),
 "C03": ("rapid property-based testing with metamorphic relations (append-invariance, prefix rejection at every cut point) and a differential extent oracle against the independent model",
         "For each accepted input: remainder is a suffix, consumed extent equals the model's, 5 appended strings leave value and consumed count unchanged, and every proper prefix of a completely consumed encoding is rejected (all cut points up to 1200 bytes). ~24k base inputs and ~2M parser calls per quick run.",
         "internal/model decoders give the declared extent; acceptance rule per entry point as in DESIGN 3.4.", "DESIGN.md 5/C03"),
 "C04": ("rapid property-based testing (structured + extreme-field + arbitrary inputs) with reflection-driven method sweeps on every accepted value; exhaustive sweep of all 65,536 type codes; native coverage-guided fuzzing (thorough)",
         "No exported parser/decoder/constructor panics or exceeds a 20 s (then 60 s) deadline on ~120k generated inputs per quick run (up to 140 KiB, counts/lengths at extremes, 1000-pair mappings), and every exported method of every accepted value (swept two levels deep by reflection, ~4M calls) returns; all 65,540 type codes x 14 type-taking functions x 4 data shapes enumerated completely. The hang clause is decided only as 'no call exceeded a generous wall deadline twice'.",
         "Panics are caught per call by recover; the Go runtime and reflect are trusted. AddAddress (a mutator taking a caller-supplied pointer) is not called by the sweep; methods whose parameters have no generator are listed in the evidence notes.", "DESIGN.md 5/C04"),
 "C10": ("exhaustive enumeration of all 65,536 signing and crypto type codes through every size lookup and behavioural framing probe, compared with the specification table (differential) + rapid-generated identities for the key-block layout",
         "Part 1 is complete for the 16-bit code space each run (every lookup x every code, mutual agreement and agreement with the spec table for defined codes); part 2 checks offsets of key/padding bytes for all 30 supported pairs exhaustively plus ~20k generated identities through parser and constructor.",
         "internal/model's tables are transcribed from common.md; reserved codes (GOST 9/10, MLDSA 12-20, experimental) are only required to be treated consistently.", "DESIGN.md 5/C10"),
 "C20": ("exhaustive reflection sweep of every (exported type, argument-free method) pair on zero values (types discovered from /repo's sources at check time) + rapid-generated truncations/mutations for failed-parse results",
         "Domain A is complete each run (29 types today, every exported argument-free method of the pointer method set); domain B sweeps the value returned together with an error at every truncation point of ~4k generated encodings (~12M method calls). Verification methods must never report success on such values.",
         "recover() catches panics per call; reflection calls pointer-receiver and value-receiver methods through new(T).", "DESIGN.md 5/C20"),
 "C07": ("rapid property-based testing with independent oracles (crypto/sha256, own bit-level base32/base64) and a metamorphic single-byte-difference relation; every offset of one identity per key-type pair enumerated",
         "Hash/IdentHash/Base32Address/Base64/Equals of ~30k generated identity pairs per quick run compared with SHA-256 and own base encodings of the model bytes; every byte offset (keys, padding, certificate header/types/excess) of 10 identities flipped exhaustively to show it takes part in hash, address and equality.",
         "crypto/sha256 trusted; base32/base64 oracle is the harness's bit-level codec.", "DESIGN.md 5/C07"),
 "C09": ("exhaustive enumeration of signing {0..20} x crypto {0..10,255} over every API path yielding a Destination or RouterIdentity + rapid sampling of the rest of the 16-bit code space; oracle = policy table from the specification",
         "All 252 known-code pairs x 2 seeds x 16 paths each run (soundness: no prohibited type escapes; completeness: permitted supported pairs succeed on every path), plus ~6k sampled pairs incl. boundary codes.",
         "Policy table transcribed from common.md usage columns; struct literals with exported fields are not an API path. DecryptInnerData is covered by C16's crafted ciphertexts.", "DESIGN.md 5/C09"),
 "C19": ("rapid differential testing of 23 parser twin pairs on shared inputs (valid / mutated / arbitrary) and of builder twins on generated arguments; native fuzzing of the twin table (thorough)",
         "Same acceptance, identical serialisation and remainder for each twin pair on ~150k inputs per quick run (common domain per pair stated in the test), five key-certificate construction routes and the constructor twins on ~40k argument tuples.",
         "Twins are compared only inside the domain both document (e.g. fixed-size readers on certificates declaring their sizes).", "DESIGN.md 5/C19"),
 "C05": ("rapid property-based testing with an independent verifier (stdlib ed25519/ecdsa/dsa over the raw received bytes) as oracle; generators = model-built, stdlib-signed structures x adversarial derivations (forged/transplanted offline blocks, attacker-key signatures, structure-aware byte edits)",
         "Soundness only: whenever the library parses a derived input and reports successful verification, the strict model must decode exactly the consumed bytes and the signature chain (identity key -> optional transient key -> outer signature with the 0x03/0x07/0x05 prefix) must hold over those bytes. ~40k derivations per quick run, ~60% still parse; the evidence counts genuine bases that verify so the check cannot be vacuous.",
         "crypto/ed25519, crypto/ecdsa, crypto/dsa and the I2P DSA parameters are trusted; forging is explored structurally, not cryptanalytically. ECDSA-signed structures never verify in this tree (go-i2p/crypto rejects the 64/96-byte key format: fails closed), so P-256/P-384 bases only exercise the rejecting side.", "DESIGN.md 5/C05"),
 "C06": ("rapid property-based testing over constructor arguments with a three-fold oracle: library Verify on the constructed value, library Verify after serialise+parse, and the independent stdlib verifier over the raw bytes",
         "Every signing constructor (NewRouterInfo, NewLeaseSet, NewLeaseSet2, NewEncryptedLeaseSet(+FromDestination, four key representations), CreateOfflineSignature) on ~12k generated argument tuples per quick run incl. empty values, one-character keys, 0..8 addresses, 0..16 leases, all flag combinations, offline blocks with transient types 0,1,7,11. A symmetric sign/verify mistake is caught by the independent verifier.",
         "Known finding F-ECDSA-VERIFY (P-256-signed output never verifies; defect in the go-i2p/crypto dependency) is excluded by signature and counted. P-384 private keys do not implement types.SigningPrivateKey and cannot be passed to the constructors at all.", "DESIGN.md 5/C06"),
 "C02": ("rapid differential testing against an independent implementation of the common.md layout: model encode -> library parse -> every accessor compared with the model value; library constructors -> bytes compared with the model encoding and strictly decoded by the model",
         "Both directions for identity (all supported key pairs, NULL/KEY certificates, excess payload), Lease/Lease2, LeaseSet, LeaseSet2, MetaLeaseSet (library-documented layout and common.md layout), EncryptedLeaseSet, OfflineSignature, RouterAddress, RouterInfo on ~24k generated values per quick run. A change applied symmetrically to reader and writer is caught because the model shares no code with the library.",
         "internal/model (written from common.md) is the reference. Known finding F-META-SPEC (MetaLeaseSet layout differs from common.md) is excluded by signature and counted; domain restrictions (EncryptedLeaseSet expires >= 1, inner >= 61 bytes; peer_size 0) follow the library's documented minima.", "DESIGN.md 5/C02"),
 "C08": ("rapid stateful property-based testing: generated overwrite histories on the input buffer and on copy-documented accessor results, invariant = reflection-based deep observation of the value unchanged; capacity sentinel against appends into the caller's slice",
         "For every listed structure (22 parser entry points) ~12k accepted inputs per quick run, each with a 1..4 step history of {invert, zero, overwrite range, scribble on slices returned by copy-documented accessors}; after every step the serialisation and the pointer-following dump of every exported argument-free method (two levels deep) must equal the first observation.",
         "Observation is by reflection through exported methods and printable fields; the options/properties mappings of LeaseSet2/MetaLeaseSet are excluded as the property says; time-dependent predicates (IsExpired, Validate) are not part of the observation. SortEntriesByCost is documented to copy but returns structs, not byte slices; it is observed, not scribbled on.", "DESIGN.md 5/C08"),
 "C14": ("rapid property-based testing over constructor argument tuples with single-defect injection; oracle = inclusion chain constructor => Validate => wire round trip, and defect => rejection by constructor and (through parser or exported fields) by validator",
         "~24k tuples per quick run over LeaseSet2, EncryptedLeaseSet, OfflineSignature, Signature, Certificate(+builder), KeysAndCert/Destination/RouterIdentity, RouterAddress(+Mapping), RouterInfo, LeaseSet; half of them carry one documented structural defect (key length vs type, KeyLen vs data, 0/17 keys or leases, flag/offline mismatch, reserved bits, sizes vs type, unknown types, zero expires, empty style, wrong padding, prohibited key type).",
         "Known findings F-CTOR-OFFSIG and F-CTOR-RI (constructor/validator disagreements pinned by the suite) are excluded by signature and counted. Expiry checks are avoided by far-future dates.", "DESIGN.md 5/C14"),
 "C15": ("rapid property-based testing with a math/big oracle over boundary-directed field values; all boundary pairs enumerated every run",
         "published+offset, lease end dates, offline expiry, second<->millisecond conversions and NewLease2 range rejection compared with big-integer arithmetic on ~60k generated field values per quick run (all 15 boundary pairs, the 2^31 / 2^32 / UnixNano-limit neighbourhoods); Newest/OldestExpiration on lease sets of 1..16 arbitrary dates; IsExpired one day either side of the start of the run for seven structure kinds.",
         "The clock is read once in TestMain; the +-86,400 s margin makes the IsExpired verdict independent of it.", "DESIGN.md 5/C15"),
 "C17": ("rapid property-based testing from a grammar of near-miss host/port strings with an own IP-literal recogniser and port oracle (net/netip as a cross-check); literal tables enumerated every run",
         "Host/HasValidHost/IPVersion/Port/HasValidPort/GetOption/StaticKey/InitializationVector on ~40k generated option maps per quick run through both NewRouterAddress and ReadRouterAddress; 60 host literals x 4 ports and 26 port strings enumerated completely.",
         "The harness's recogniser is the reference; cases where it and net/netip disagree are counted as inconclusive (none observed). '+80' counts as a decimal port (optional sign), as strconv.Atoi and the design state.", "DESIGN.md 5/C17"),
}
checks = []
for pid in ids:
    if pid not in CLAIMED:
        continue
    tech, text, note, ref = CLAIMED[pid]
    checks.append(dict(property_id=pid, quick_cmd="./check %s quick" % pid, thorough_cmd="./check %s thorough" % pid,
        evidence_file="/verif/evidence/%s.json" % pid, replay_cmd_template="./check %s --replay {path}" % pid,
        engine="harness", level_claimed=dict(category="exploration", text=text, design_ref=ref), level_note=note, technique=tech))
na = [dict(property_id=p, reason="check not built yet in this session (planned: DESIGN.md section 5); no verdict is claimed") for p in ids if p not in CLAIMED]
m = dict(version=1, setup_cmd="./check --setup",
  hooks=dict(guard="verif", enable="no hooks are needed: every check uses exported API only (go test builds /repo through a replace directive)",
     baseline_off_cmd="cd /repo && GOFLAGS=-mod=mod GOPROXY=off go test -vet=off -count=1 ./...", source_commits=[], add_only=True),
  engines=[dict(name="harness", path="/verif/harness", serves_properties=[c["property_id"] for c in checks],
     kind_free_text="Go module: pgregory.net/rapid v1.3.0 property tests + native go fuzz targets + exhaustive enumerations, one package per property; driver /verif/check")],
  checks=checks, not_applicable=na,
  notes="Technique family: property-based testing and fuzzing. Exit 0 held / 1 VIOLATION / 2 inconclusive (infrastructure). Known findings: /verif/known_findings.json.")
json.dump(m, open(os.path.join(V, "MANIFEST.json"), "w"), indent=1)
print("claimed", len(checks), "not_applicable", len(na))
