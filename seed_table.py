#!/usr/bin/env python3
"""Prints the DESIGN.md section-12 tables from /verif/seeded/*/meta.json.
   seed_table.py <round>   (1, 2 or 3)"""
import json, glob, os, sys
V = os.path.dirname(os.path.abspath(__file__))
rnd = int(sys.argv[1]) if len(sys.argv) > 1 else 1
rows = []
for f in sorted(glob.glob(os.path.join(V, "seeded", "*", "meta.json"))):
    m = json.load(open(f))
    if m.get("round", 1) != rnd:
        continue
    tgt = m["property"]
    others = [c for c in m["caught_by"] if c != tgt]
    fin = os.path.join(os.path.dirname(f), "final.json")
    final = ""
    if os.path.exists(fin):
        final = "reported" if json.load(open(fin)).get("reported") else "NOT REPORTED"
    first = "missed, then reported after the repair" if m.get("missed_at_first") else "reported"
    if rnd == 1:
        rows.append("| %s | %s | %s | %s | %s |" % (m["seed"], m["what"].replace("|", "/"), m["needs_to_manifest"].replace("|", "/"),
                                                ("**%s**" % tgt) if tgt in m["caught_by"] else "missed by %s" % tgt, ", ".join(others) or "-"))
    else:
        rows.append("| %s | %s | %s | %s | %s |" % (m["seed"], m["what"].replace("|", "/"), m["needs_to_manifest"].replace("|", "/"), first, final or "-"))
if rnd == 1:
    print("| seed | change | needs, to manifest | target check | also reported by |")
    print("|------|--------|--------------------|--------------|------------------|")
else:
    print("| seed | change | needs, to manifest | target check as it stood | target check, final state |")
    print("|------|--------|--------------------|--------------------------|---------------------------|")
print("\n".join(rows))
