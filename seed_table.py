#!/usr/bin/env python3
"""Prints the DESIGN.md section-12 table from /verif/seeded/*/meta.json."""
import json, glob, os
V = os.path.dirname(os.path.abspath(__file__))
rows = []
for f in sorted(glob.glob(os.path.join(V, "seeded", "*", "meta.json"))):
    m = json.load(open(f))
    tgt = m["property"]
    others = [c for c in m["caught_by"] if c != tgt]
    rows.append("| %s | %s | %s | %s | %s |" % (m["seed"], m["what"].replace("|", "/"), m["needs_to_manifest"].replace("|", "/"),
                                            ("**%s**" % tgt) if tgt in m["caught_by"] else "missed by %s" % tgt, ", ".join(others) or "-"))
print("| seed | change | needs, to manifest | target check | also reported by |")
print("|------|--------|--------------------|--------------|------------------|")
print("\n".join(rows))
