#!/usr/bin/env python3
"""Collects confirmed seeded breakages from the sub-agents' output directories
(/tmp/wt/<ID>-out) into /verif/seeded/<ID>-<k>/ (patch.diff, demo, notes.md,
meta.json). Re-runnable: caught_by is refreshed from /tmp/wt/results."""
import json
import os
import shutil
import sys

V = os.path.dirname(os.path.abspath(__file__))
SRC = "/tmp/wt"

# what each change is and what it needs in order to manifest (from the sub-agents' reports)
INFO = {
 "C01-1": ("buildKeysAndCertBlock refactored to one contiguous padding copy guarded only by sigPaddingSize > 0: padding serialised as zeros", "KEY certificate pairing a 128-byte signing key (DSA_SHA1) with a 32-byte crypto key (X25519 / MLKEM) and non-zero padding"),
 "C01-2": ("RouterAddress.Bytes writes a literal zero expiration instead of the parsed one", "an accepted RouterAddress / RouterInfo whose expiration bytes are not all zero (the constructors never produce one)"),
 "C02-1": ("same mechanism as C01-1 with guard padEnd > 256", "DSA_SHA1 signing + 32-byte crypto key, non-zero padding"),
 "C02-2": ("LeaseSet2 trailing signature typed by offlineSig.DestinationSigType() in reader and constructor alike", "offline block whose transient signing type has a different signature length than the destination's (Ed25519 destination with DSA or P384 transient key)"),
 "C03-1": ("parseTransportOptions ignores every error starting with 'warning parsing mapping:' - also 'mapping length exceeds provided data'", "a RouterAddress cut inside its options mapping on (or up to 5 bytes past) a pair boundary"),
 "C03-2": ("parseSignatureAndFinalize sizes the LeaseSet2 signature by the destination's type", "offline keys present, transient signature length != destination signature length (P384: stops 32 bytes early; DSA: swallows 24 bytes of what follows)"),
 "C04-1": ("bounds guard in isCompleteShortPair weakened (eq >= n): remainder[eq+1] read unguarded -> index out of range", "mapping tail of exactly 4 or 5 unparsed bytes whose first byte is n-2 and last byte '=' (02 k k 3d)"),
 "C04-2": ("ipVersionFromCaps slices str[len(str)-1:] instead of HasSuffix -> slice bounds panic", "caps option present with an empty value, host absent or not an IP literal, then IPVersion/Network/UDP/String (or RouterInfo.HasIPv4/HasIPv6)"),
 "C05-1": ("serializeWithoutSignature writes a literal 0x00 for peer_size: that byte is not covered by RouterInfo.VerifySignature", "editing exactly the peer_size byte of a signed RouterInfo"),
 "C05-2": ("LeaseSet2.verifyOfflineSignature caches verified offline blocks in a package-level map keyed by the block bytes, not by the identity", "two-step history: identity A's LeaseSet2 with block O verified once in the process, then identity B's LeaseSet2 carrying O and signed by A's transient key"),
 "C06-1": ("parseLeases pre-checks remaining bytes with LEASE_SIZE (44) instead of LEASE2_SIZE (40)", "40-byte DSA trailing signature and 11..16 leases with nothing following the LeaseSet2"),
 "C06-2": ("OfflineSignature.VerifySignature calls Validate() (with expiry) instead of ValidateStructure()", "an expires timestamp at or before now"),
 "C07-1": ("same mechanism as C01-1", "X25519 + DSA_SHA1 identity with non-zero padding: padding bytes no longer take part in hash, address and equality"),
 "C07-2": ("RouterIdentity.Equal compares components in place using KeyCertificate.RawBytes(), which keeps whatever followed the certificate in the parse buffer", "the same identity parsed from a buffer that continues after it (RouterInfo, stream) versus parsed standalone"),
 "C08-1": ("extractPaddingFromData returns append(view, ...) of a capped sub-slice: when nothing is appended the view itself (aliasing the input) is returned", "DSA_SHA1 signing type in a KEY certificate with a 32-byte crypto key, then overwrite of input bytes 32..255"),
 "C08-2": ("EncryptedLeaseSet keeps a sub-slice of the input (signedContent) and Verify() reads through it", "a validly signed EncryptedLeaseSet parsed by ReadEncryptedLeaseSet, buffer overwritten, then Verify()"),
 "C09-1": ("validateRouterIdentityKeyTypes restructured as a switch: a DSA_SHA1 identity never reaches the crypto-type check", "signing type 0 paired with MLKEM crypto type 5, 6 or 7 on any RouterIdentity path"),
 "C09-2": ("ReadDestination gains a fast path through ReadKeysAndCertX25519AndEd25519 that returns before the key-type policy", "two 32-byte keys with a prohibited type: (Ed25519ph, X25519) or (Ed25519/RedDSA, MLKEM)"),
 "C10-1": ("CryptoPublicKeySizes derived from CryptoKeySizes by a helper that copies the private-key size", "crypto codes 1, 2, 3 (P-256/P-384/P-521), where public and private sizes differ"),
 "C10-2": ("extractPaddingFromData guard pubPaddingSize < 0 || sigPaddingSize <= 0 returns nil padding when the signing key fills its field", "signing type 0 with crypto type 4..7 through ReadKeysAndCert"),
 "C11-1": ("mappingOrder compares keys as []rune: invalid UTF-8 bytes all decode to U+FFFD", ">= 2 keys containing invalid UTF-8 that differ only in the invalid bytes (or vs U+FFFE/U+10000+)"),
 "C11-2": ("ValuesToMapping's size check omits the two length-prefix bytes per pair", "a map whose real payload is 65,536..65,535+2N bytes: accepted, size field wraps"),
 "C12-1": ("EncodeIntN takes its limit from a lookup table whose width-7 entry is 2^60-1", "width 7 and a value in [2^56, 2^60)"),
 "C12-2": ("validateI2PStringDataLength compares length > len(data) (off by one): slice-bounds panic", "string input with exactly one content byte missing"),
 "C13-1": ("DecodeStringSafeNoPadding calls the stdlib decoder directly, skipping validateEncodedInput", "byte 0xFF where '=' padding would be legal, through that one function only"),
 "C13-2": ("shared size guard tests n >= MAX_DECODE_SIZE", "input of exactly MAX_DECODE_SIZE characters"),
 "C14-1": ("constructor-side determineSignatureType returns DestinationSigType for offline LeaseSet2s", "offline keys with a transient type whose signature length differs from the destination's: NewLeaseSet2+Validate+Bytes succeed, ReadLeaseSet2 fails"),
 "C14-2": ("validateConstructorFlags rewritten as a switch on flags that misses 0x0002", "NewEncryptedLeaseSet(flags = UNPUBLISHED only, offlineSig != nil): succeeds, Validate() fails"),
 "C15-1": ("LeaseSet2.ExpirationTime sums published+expires in uint32", "published + expires >= 2^32"),
 "C15-2": ("Newest/OldestExpiration compare date.Time().UnixNano()", ">= 2 leases with at least one end date after 2262-04-11"),
 "C16-1": ("DecryptInnerData caches the first successfully decrypted LeaseSet2 regardless of the key", "same EncryptedLeaseSet value: decrypt with the right key, then with a wrong key"),
 "C16-2": ("blinding date string from date.Truncate(24h).Format (keeps the Location)", "any instant expressed in a zone west of UTC"),
 "C17-1": ("ipVersionFromHost uses netip.ParseAddr + Is4", "IPv4-mapped IPv6 literal (::ffff:a.b.c.d) or zoned literal as host"),
 "C17-2": ("validatePortValue uses strconv.ParseInt(s, 0, 32)", "zero-padded, 0x/0b/0o-prefixed or underscored port strings"),
 "C18-1": ("certificate header copied once and kind/len sliced out of it: Bytes()'s append(kind, len...) writes in place", "a parsed value serialised by >= 2 goroutines, under the race detector"),
 "C18-2": ("LeaseSet2.Verify memoises the transient key in an unexported field without a lock", "offline-signed LeaseSet2 whose first Verify() calls happen concurrently (a sequential warm-up hides it), under the race detector"),
 "C19-1": ("CertificateBuilder regenerates the key-type payload only when len(payload) != 4", "builder reuse: WithKeyTypes, Build, WithKeyTypes, Build - or WithPayload(4 bytes) followed by WithKeyTypes"),
 "C19-2": ("extractKeyCertificate of the fixed-size readers parses only data[384:391]", "in-type identity (Ed25519 + ElGamal/X25519) whose KEY certificate declares more than 4 payload bytes"),
 "C20-1": ("parseRouterAddresses pre-allocates the address slice: a failed parse leaves nil entries", "RouterInfo truncated inside its address section, then HasIPv4/HasIPv6/SupportsNTCP2/SupportsSSU2"),
 "C20-2": ("signingPublicKeyForVerification guard reduced to HasOfflineKeys()", "LeaseSet2 truncated inside its offline block (flag set, nil block) then Verify()"),
}

# round 2 (sub-agents told which mechanisms round 1 had used, so as to avoid them); patch k is kept as <ID>-<k+2>
INFO2 = {
 "C01-3": ("serializeOnePair rejects an empty key (copied from MappingValues.Add); the parser accepts one, so Mapping.Data() drops the pair and writes a smaller size field", "an accepted wire mapping containing a pair with a zero-length key, in any container (RouterAddress, RouterInfo, LeaseSet2, MetaLeaseSet options)"),
 "C01-4": ("signing-key slicing of the DSA/P-256/P-384 constructors refactored into one helper; the P-384 call site passes the P-256 size: last 32 of 96 key bytes become zero", "KEY certificate with signing type 2 (ECDSA-P384) whose last 32 key bytes are not all zero"),
 "C02-3": ("parseRouterAddresses declares the address variable once outside the loop: every appended pointer is the same address", "RouterInfo with >= 2 non-identical addresses read through ReadRouterInfo"),
 "C02-4": ("MetaLeaseSet reader and serialiser both use flags | options | [offline] instead of flags | [offline] | options", "MetaLeaseSet with the offline-keys flag set (the library still round-trips its own output)"),
 "C03-3": ("NULL-certificate path of ReadKeysAndCert returns rawData[387:] as remainder instead of the certificate reader's remainder", "NULL certificate declaring a non-zero length (accepted with a warning)"),
 "C03-4": ("validateMappingInputData rejects only empty input; ReadInteger never fails on short input: the one-byte input 00 parses as a complete empty mapping", "input cut exactly one byte into a mapping size field whose first byte is 0 (also a RouterAddress cut one byte after its transport style)"),
 "C04-3": ("ReadOfflineSignature computes the bytes left for the signature from len(data)-transientKeySize, forgetting the 6-byte header: slice bounds panic", "input ending 1..6 bytes before the end of the offline signature (also inside LeaseSet2 / MetaLeaseSet / EncryptedLeaseSet)"),
 "C04-4": ("base32 alphabet check through a [128]bool table indexed by the input byte: index out of range", "any byte 0x80..0xFF before the first invalid ASCII character, in any of the four decoders"),
 "C05-3": ("MetaLeaseSet.verifyOfflineSignature calls OfflineSignature.VerifySignature and treats every error as 'could not be checked' (fails open)", "MetaLeaseSet with offline keys whose destination signs with DSA / P-256 / P-384 (verifier 'not implemented'), or any type with expires == 0 in a forged block"),
 "C05-4": ("LeaseSet.Verify uses the LeaseSet's own signing_key (revocation key) when the lease count is zero", "zero-lease LeaseSet whose signing_key differs from the destination's key and whose signature was made with that other key"),
 "C06-3": ("parseEncryptedInnerData keeps data[:n:n] instead of a copy: the signed content aliases the caller's buffer", "sign, Bytes(), ReadEncryptedLeaseSet(buf), then the caller overwrites buf, then Verify()"),
 "C06-4": ("LeaseSet2 parser sorts the parsed options by raw I2PString bytes (length byte first) while the builder signs them ordered by key content", "LeaseSet2 with >= 2 options whose keys differ in length such that a shorter key sorts after a longer one (aa, b)"),
 "C07-3": ("NewKeyCertificate (parse path) trims a KEY certificate's payload to the 4 type bytes: the identity serialises to fewer bytes than were read", "parsed identity whose KEY certificate declares more than 4 payload bytes"),
 "C07-4": ("KeysAndCert.Bytes() memoises the serialised form in an unexported field that is never invalidated and travels with struct copies", "the identity is serialised / hashed once and only then an exported field (padding byte, signing key) is changed, or a struct copy gets another key"),
 "C08-3": ("zero-length certificate payload set to bytes[3:] (a view of the caller's buffer) instead of a copy", "NULL / HIDDEN certificate parsed from a buffer with trailing bytes; ExcessBytes / RawBytes / KeyCertificate.Data follow the buffer (serialisation stays correct)"),
 "C08-4": ("NewLeaseFromBytes returns (*Lease)(data[:LEASE_SIZE]): a typed pointer into the caller's buffer", "44-byte legacy lease through NewLeaseFromBytes, then any overwrite of the first 44 bytes"),
 "C09-3": ("ReadLeaseSet2 re-reads a refused destination with ReadKeysAndCert and lets 'offline only' signing types through when the OFFLINE_KEYS flag is set", "LeaseSet2 (also the inner one of DecryptInnerData) with flag bit 0, a well-formed offline block and destination signing type Ed25519ph (8)"),
 "C09-4": ("NewDestination calls Validate() (initialisation and sizes only); the separate key-type policy call is lost in the refactor", "direct NewDestination call with a structurally valid KeysAndCert declaring Ed25519ph, RSA or ML-KEM"),
 "C10-3": ("offline_signature.SignatureSize gains case arms for the reserved GOST codes 9 and 10", "signing-type code 9 or 10 exactly"),
 "C10-4": ("validateFixedKeySizes accepts when crypto size OR signing size matches the fixed reader's", "KEY certificate matching a fixed reader in exactly one size, passed to that fixed reader (X25519+P256 through the X25519/Ed25519 reader)"),
 "C11-3": ("Mapping.Data() sorts the pairs in place before serialising", "well-formed wire mapping with >= 2 pairs not in ascending key order"),
 "C11-4": ("isCompleteShortPair rewritten as a switch dispatching 5-byte tails on remainder[1] == '=': the pair 01 3d 3d 00 3b lands in the wrong case", "map whose highest-sorting key is exactly '=' with value ''"),
 "C12-3": ("NewDateFromMillis builds time.Unix(0, millis*1e6): int64 multiplication wraps", "millis above MaxInt64/1e6 = 9,223,372,036,854 (dates after April 2262)"),
 "C12-4": ("ToI2PString checks utf8.RuneCountInString(data) > 255 while the prefix byte is byte(len(data))", "valid multi-byte UTF-8 content longer than 255 bytes with at most 255 runes"),
 "C13-3": ("base32 validateEncodedInput counts CR/LF into the 8-character group length", "padded base32 input containing CR or LF, count not a multiple of 8 (valid wrapped input rejected, malformed input completed by line breaks accepted)"),
 "C13-4": ("base64 encoders chunk inputs above 1 MiB into 1<<20-byte pieces (1<<20 mod 3 = 1): '==' in the middle of the text", "input of at least 1,048,577 bytes"),
 "C14-3": ("same edit as C01-4 (P-384 signing key truncated on the parse path)", "ECDSA-P384 identity through Bytes -> Read* -> Bytes"),
 "C14-4": ("parseLeases of the legacy LeaseSet reader: > 16 became >= LEASE_SET_MAX_LEASES", "v1 LeaseSet with exactly 16 leases: NewLeaseSet / Validate / Bytes succeed, ReadLeaseSet rejects its own output"),
 "C15-3": ("NewLease2 range check on expirationTime.UnixMilli()/1000 instead of Unix(): UnixMilli wraps modulo 2^64", "seconds s with s*1000 mod 2^64 in [0, 2^32*1000): 2^61, 2^62, -2^62, MinInt64, 2^61+1700000000 (probability 2.3e-7 for a uniform int64)"),
 "C15-4": ("EncryptedLeaseSet.PublishedTime returns time.Time{} when published == 0", "EncryptedLeaseSet with published == 0 exactly (the LeaseSet2 / MetaLeaseSet twins are untouched)"),
 "C16-3": ("deriveBlindedPublicKey cuts a secret longer than 32 bytes to its first 32 before deriving the factor", "secret strictly longer than 32 bytes"),
 "C16-4": ("nonce written as 4 zero bytes + 8 random bytes and rebuilt on decryption from wire bytes 4..11 only", "modification of ciphertext offsets 32..35 (4 of ~600 positions)"),
 "C17-3": ("MappingValues.Get stops early once a stored key compares greater than the requested one (assumes sorted pairs)", "RouterAddress / Mapping read from bytes with options out of ascending key order"),
 "C17-4": ("HasValidHost returns IPVersion() != \"\" (falls back to the caps suffix)", "host option present but not an IP literal, and a caps option present"),
 "C18-3": ("Newest/OldestExpiration order the leases with sort.SliceStable on the shared backing array", "LeaseSet with >= 2 leases not in ascending expiry order; the accessor reorders the receiver (Bytes changes, Verify fails, race with concurrent readers)"),
 "C18-4": ("'unknown key type' warnings rate-limited through an unlocked package-level map written on every lookup", "KeyCertificate with an unknown signing or crypto type, >= 2 goroutines calling the size lookups"),
 "C19-3": ("KeyCertificateFromCertificate takes the key types through accessors that read the raw payload (including bytes that follow the certificate in the parse buffer)", "KEY certificate with declared payload length 0..3 read by ReadCertificate from a buffer that continues past it"),
 "C19-4": ("RouterIdentity.AsDestination re-creates the key certificate by re-parsing its own serialisation; a NULL-certificate identity's synthetic key certificate serialises to 00 00 00 and is rejected", "legacy 387-byte NULL-certificate identity through ReadRouterIdentity then AsDestination"),
 "C20-3": ("parseSingleKeyValuePair returns the earlier string error instead of the delimiter error: the half-read pair (complete key, nil value) is kept and MappingValues.Get slices pair[1][1:]", "RouterAddress / RouterInfo truncated immediately after the '=' of an option whose key an accessor looks up, then that accessor"),
 "C20-4": ("EncryptedLeaseSet.bytesWithoutSignature writes encryptedInnerData[:innerLength]; the parser stores innerLength before checking that the payload is there", "EncryptedLeaseSet truncated inside its encrypted payload (>= 109 bytes of input) then Bytes() or Verify() on the returned value"),
}

# round 3 (change 1: off the main parser path or needing a sequence of calls; change 2: narrow input); patch k kept as <ID>-<k+4>
INFO3 = {
 "C01-5": ("warnIfOptionsUnsorted compares against ValuesToMapping(mapping.Values()), which sorts the shared backing array in place: ReadLeaseSet2 silently reorders the parsed options", "accepted LeaseSet2 whose options have >= 2 pairs out of key order on the wire"),
 "C01-6": ("parsePeerSizeFromBytes skips peer_size*32 bytes of peer hashes that are stored nowhere; the serialiser writes only the count byte", "RouterInfo with non-zero peer_size and the hashes present such that the rest still parses"),
 "C02-5": ("KeyCertificateFromCertificate builds a detached certificate from the first 4 payload bytes only", "KEY certificate with extra payload built through NewCertificateWithType -> KeyCertificateFromCertificate -> NewKeysAndCert / NewRouterIdentity"),
 "C02-6": ("legacy parseLeases: > 16 became >= LEASE_SET_MAX_LEASES", "legacy LeaseSet with exactly 16 leases"),
 "C03-5": ("intFromBytes widens short integers into one package-level scratch array", ">= 2 goroutines parsing at the same time in one process (any inputs)"),
 "C03-6": ("certificate 'payload too long' check applied to len(bytes)-3, the whole rest of the caller's buffer", "a certificate (or anything built on ReadKeysAndCert) followed by >= 65,536 bytes after its 3-byte header"),
 "C04-5": ("verifyEd25519ph lost its len(pubKey) != 32 guard; ed25519.VerifyWithOptions panics on a bad key length", "OfflineSignature with destination signature type 8, VerifySignature(key) with a key that is not 32 bytes"),
 "C04-6": ("parseSingleEncryptionKey checks TYPE_SIZE+LENGTH_SIZE+keyLen in uint16: wraps for keyLen >= 0xFFFC, then data[:keyLen] panics", "LeaseSet2 key length field of exactly 0xFFFC..0xFFFF with less data following"),
 "C05-5": ("RouterInfo.VerifySignature memoises the signed bytes on first call and never invalidates them", "verify (true), change covered content through AddAddress or the RouterAddresses() pointers, verify again"),
 "C05-6": ("serializeOnePair rejects an empty key; Data() skips the pair: a pair with an empty key inserted into signed options is not covered by any re-serialising verifier", "exactly one pair with an empty key inserted into the options of a signed LeaseSet2 / MetaLeaseSet / RouterInfo, size field adjusted"),
 "C06-5": ("Newest/OldestExpiration sort the shared lease array in place: a signed LeaseSet no longer verifies after the accessor", ">= 2 leases not in ascending expiry order, accessor called before Verify()/Bytes()"),
 "C06-6": ("LeaseSet2.verifyOfflineSignature reuses OfflineSignature.VerifySignature, which knows destination types 7, 8, 11 only", "LeaseSet2 with offline keys and a DSA_SHA1 destination (block built by NewOfflineSignature around a DSA signature)"),
 "C07-5": ("RouterIdentity.AsDestination gives the copy a fresh certificate from NewKeyCertificateWithTypes: certificate type and extra payload lost", "NULL-certificate identity, or KEY certificate with more than 4 payload bytes, through AsDestination().Hash/Base32Address/Base64"),
 "C07-6": ("constructECDSAP384Key copies data[:KEYCERT_SIGN_P256_SIZE] (64 of 96 bytes)", "parsed identity with signing type 2 and a non-zero byte among the last 32 key bytes"),
 "C08-5": ("NewSignatureFromBytes lost its defensive copy in a helper refactor; only the legacy LeaseSet parser builds its signature that way", "ReadLeaseSet, overwrite the trailing signature bytes of the input, then Signature()/Bytes()/Verify()"),
 "C08-6": ("RedDSA branch gets its own constructor passing data straight to ed25519.NewEd25519PublicKey (wraps the slice)", "KEY certificate with signing type 11, overwrite input offsets 352..383"),
 "C09-5": ("NewRouterIdentityFromKeysAndCert caches its wrapper in a package-level sync.Map keyed by the *KeysAndCert pointer, looked up before the key-type check", "one KeysAndCert object wrapped while permitted, overwritten with a prohibited type of the same key sizes, wrapped again"),
 "C09-6": ("validateDestinationKeyTypes reads the types through helpers that fail for non-KEY certificates and propagates the error", "the classic 387-byte NULL-certificate destination (DSA_SHA1 + ElGamal): over-rejection on every Destination path"),
 "C10-5": ("KeyCertificate.CryptoPublicKeySize() indexes the crypto table with the signing type code", "signing code != crypto code with different sizes (Ed25519+ElGamal: 32 instead of 256); hidden when both codes are equal"),
 "C10-6": ("same edit as C07-6 (P-384 key truncated)", "signing type 2 with non-zero last 32 key bytes"),
 "C11-5": ("goPairToMappingPair assigns the key's error and then the value's error to the same variable: an over-long key is dropped silently", "map containing a key longer than 255 bytes whose value is within the limit"),
 "C11-6": ("dropUnsetPairs tests len(pair[0]) <= 1 instead of == 0: the legitimately set empty key (single byte 0x00) is discarded", "map containing \"\" as a key"),
 "C12-5": ("EncodeIntN returns a slice of a sync.Pool'd scratch array", ">= 2 EncodeIntN results held at once, the earlier one read after the later call"),
 "C12-6": ("I2PString.Data() trims trailing NUL bytes", "string content ending in 0x00 read through Data()"),
 "C13-5": ("base64 DecodeString / DecodeStringSafe return a slice of a pooled work buffer", "a decoded result held across a second decode (or written into)"),
 "C13-6": ("empty-input guard moved from DecodeStringSafeNoPadding down into DecodeStringNoPadding", "exactly the empty string through DecodeStringNoPadding"),
 "C14-5": ("validateEncryptionKeys passes keys[0] instead of keys[i] to the per-key consistency check", "LeaseSet2 with >= 2 keys where a key at index >= 1 has a known type and a self-consistent but wrong length"),
 "C14-6": ("ValuesToMapping sums I2PString.Length() (content only): every pair under-counted by 2 bytes", "mapping payload between 65,536 and 65,535 + 2*pairs (>= 128 pairs)"),
 "C15-5": ("Newest/OldestExpiration cache the running extreme's time before the loop and never refresh it", ">= 3 leases in non-monotone order"),
 "C15-6": ("NewDateFromUnix / NewDateFromMillis share one bound MaxInt64/1000, correct for seconds only", "NewDateFromMillis with millis in (9223372036854775, MaxInt64]"),
 "C16-5": ("DecryptInnerData zeroes the plaintext buffer after parsing; the parsed options mapping still points into it", "LeaseSet2 with a non-empty options mapping"),
 "C16-6": ("VerifyBlindedSignature reduces the supplied factor modulo the group order L", "another factor = derived + k*L (k = 1..15)"),
 "C17-5": ("MappingValues.Get compares only the span of the requested key (sameKey ignores the stored key's length byte)", "an extension key present (hostname for host, ih0 for i) with the exact key absent or stored later"),
 "C17-6": ("HasValidHost returns false for unspecified addresses while Host() accepts them", "host exactly 0.0.0.0, ::, 0:0:0:0:0:0:0:0, ::ffff:0.0.0.0 or ::0.0.0.0"),
 "C18-5": ("serializeMappingPairs takes its buffer from a package-level sync.Pool and returns buf.Bytes() before the copy", ">= 2 goroutines serialising values with non-empty mappings, under the race detector"),
 "C18-6": ("RouterAddress.Bytes() (value receiver) zeroes a non-zero expiration through the shared *Date", "parsed RouterAddress with non-zero expiration; only the very first Bytes() call writes"),
 "C19-5": ("NewDestination wraps first and calls (*Destination).Validate(), losing the key-type check", "NewDestination(ReadKeysAndCert(b)) with a Destination-prohibited type that ReadKeysAndCert can parse"),
 "C19-6": ("buildKeyCertificatePayload writes byte(signingType >> 8) as the high byte of the crypto type", "NewKeyCertificateWithTypes with exactly one type in the experimental range 65280..65534"),
 "C20-5": ("LeaseSet.Bytes() sizes its buffer from encryptionKey.Len() and signingKey.Len() before the nil checks", "zero value LeaseSet{} (also every failed ReadLeaseSet result) then Bytes() or Verify()"),
 "C20-6": ("EncryptedLeaseSet.Verify() inspects the last signature byte for RedDSA signatures before verifying", "failed-parse EncryptedLeaseSet with signature type 11 (>= 109 bytes of input) then Verify()"),
}

# round 4 (change 1: silent wrong result; change 2: error / edge path); patch k kept as <ID>-<k+6>
INFO4 = {
 "C01-7": ("NewKeyCertificate interns parsed key certificates in a package-level sync.Map keyed by the 7-byte header, ignoring payload bytes after the type codes", ">= 2 parses in one process of KEY certificates with the same types and the same declared length >= 5 but different extra payload bytes"),
 "C01-8": ("parseTransportOptions matches the prefix 'warning parsing mapping', which also covers 'mapping length exceeds provided data': a partial options mapping is treated as complete", "standalone ReadRouterAddress with an options size field larger than the bytes that remain, the bytes present tiling into whole pairs"),
 "C02-7": ("NewRouterInfo's createPublishedDate goes through NewDateFromUnix(publishedTime.Unix()): the millisecond part is dropped", "NewRouterInfo with a published time whose millisecond component is non-zero"),
 "C02-8": ("ReadOfflineSignature calls ValidateStructure() on what it parsed: expires == 0 rejected", "offline-keys flag set and an offline expires field of exactly 0 (LeaseSet2, MetaLeaseSet, EncryptedLeaseSet)"),
 "C03-7": ("ReadLeaseSet caches its whole input buffer as the wire form; Bytes() and Verify() use the cache", "any accepted legacy LeaseSet followed by extra bytes"),
 "C03-8": ("parseEncryptionKeys checks numKeys*4 header bytes once up front; the per-key header check is dropped: slicing panics for later keys", "LeaseSet2 with >= 2 keys cut 0..3 bytes into the header of a key other than the first (at least 443 bytes left)"),
 "C04-7": ("InitializationVector() decodes a 24-character value with base64 Decode straight into the [16]byte result (no bounds check): index out of range", "'i' option of exactly 24 base64-alphabet characters not ending in '=='"),
 "C04-8": ("ConstructSigningPublicKey slices data[128-keySize:128] for every type: negative index for keys larger than 128 bytes", "KeyCertificate with signing type 3..6, ConstructSigningPublicKey(data) with len(data) > key size"),
 "C05-7": ("LeaseSet2.Verify tries store types {0x03, 0x05} when the BLINDED flag is set", "signature by the right key over 0x05 || content on a LeaseSet2 carrying the BLINDED flag"),
 "C05-8": ("RouterInfo.VerifySignature calls Validate() first and returns false when it fails (needs >= 1 address)", "correctly signed RouterInfo with zero addresses - an over-rejection: outside the statement of C05, which bounds success; reported by C06"),
 "C06-7": ("same edit as C02-3 / C14-7 (parseRouterAddresses appends the address of one shared variable)", "RouterInfo with >= 2 different addresses after the wire"),
 "C06-8": ("LeaseSet2 parser rejects a header whose expires offset is zero (rule copied from EncryptedLeaseSet)", "NewLeaseSet2 with expires offset 0: built, signed, verified, refused by ReadLeaseSet2"),
 "C07-7": ("Destination.Equals compares type codes, keys and padding instead of Bytes(): certificate kind, length and extra payload no longer count", "NULL certificate versus KEY certificate (0,0) over the same key block; or two KEY certificates differing in extra payload"),
 "C07-8": ("certificate end computed with data[offset+1]<<8 on a byte: the high byte of the length is lost", "identity whose KEY certificate declares a payload of 256 bytes or more, through ReadKeysAndCert"),
 "C08-7": ("EncryptedLeaseSet keeps a view of the buffer and detaches on the first read (copy on first read)", "buffer overwritten before the first of EncryptedInnerData / Bytes / Verify / DecryptInnerData; a harness that snapshots first detaches the value"),
 "C08-8": ("extractEncryptionKeyData copies only keys of a known type with the table length; others are returned as a view", "LeaseSet2 with a key of an unknown type or of a known type with another length"),
 "C09-7": ("parseRouterInfoCore reads the identity with destination.ReadDestination and wraps it: RedDSA slips through", "RouterInfo whose identity declares (11, 0) or (11, 4)"),
 "C09-8": ("NewRouterIdentityWithCompressiblePadding tests paddingSize <= 0 instead of < 0", "the pair (0, 0): DSA_SHA1 + ElGamal fill the block exactly"),
 "C10-7": ("validateEncryptionKeys returns nil as soon as the first key is a well-formed X25519 key", "LeaseSet2 with >= 2 keys, first key X25519, a later key of a known type with the wrong length"),
 "C10-8": ("NewKeyCertificate rejects a KEY certificate whose payload is longer than 4 bytes plus the excess key data its types need", "KEY certificate with known types and extra payload"),
 "C11-7": ("serializeOnePair bound maxSerializedPairSize = 2*255+2 = 512 (true maximum 514): the pair is skipped silently", "pair with len(key)+len(value) >= 509"),
 "C11-8": ("validateMappingInputData rejects only empty input: the one-byte input 00 is accepted as an empty mapping", "ReadMapping / NewMapping on exactly one zero byte"),
 "C12-7": ("EncodeUint16/32/64 go through EncodeIntN(int(value), n) ignoring the error: zeros for values with the top bit set", "EncodeUint64(v >= 2^63), EncodeInt64(negative)"),
 "C12-8": ("ReadDate's length guard replaced by ReadInteger + len == 0: 1..7 bytes accepted", "ReadDate / NewDate with 1..7 bytes"),
 "C13-7": ("validateEncodedInput drops the multiple-of-8 check: over-padded base32 accepted", "aaaa======, aaaaa====, aaaaaaa==="),
 "C13-8": ("DecodeStringNoPadding completes the final group by slicing a 6-character padding constant: [:7] panics", "alphabet-only input of length 1 mod 8"),
 "C14-7": ("same edit as C02-3 (RouterInfo addresses alias the last one)", "RouterInfo with >= 2 different addresses through Bytes -> ReadRouterInfo"),
 "C14-8": ("Mapping.Validate additionally requires valid UTF-8 in keys and values; no constructor checks that", "option value that is not well-formed UTF-8 (a raw static key in 's')"),
 "C15-7": ("OfflineSignature.IsExpired compares int32(expires - uint32(now)) < 0 (wrap-aware)", "expires at least 2^31 seconds ahead of now"),
 "C15-8": ("MetaLeaseSet parser rejects a header when published + uint32(expires) wraps", "published in [2^32-65535, 2^32-1] with a large enough offset"),
 "C16-7": ("assembleBlindedDestination builds a fresh key certificate from the two type codes", "destination whose KEY certificate carries extra payload"),
 "C16-8": ("parseDecryptedLeaseSet2 applies the EncryptedLeaseSet flag / expires rules to the inner LeaseSet2", "inner LeaseSet2 with the BLINDED flag or expires == 0"),
 "C17-7": ("InitializationVector checks n := copy(result[:], iv); n != 16", "'i' value longer than 16 bytes: accepted and truncated"),
 "C17-8": ("resolveHostIP pre-filter hasIPLiteralCharset allows a-f but not A-F", "IPv6 literal with an upper-case hex digit: Host() fails, HasValidHost() true"),
 "C18-7": ("RouterInfo.VerifySignature remembers successes in a package-level sync.Map keyed by identity hash and published date", "genuine RouterInfo verified first, then a forged sibling with the same identity and date (no data race)"),
 "C18-8": ("Mapping.Data() skips repeated keys and writes the cleaned list back through the shared pointer", "mapping with a repeated key (MappingValues.Add + ValuesToMapping); first Data() call rewrites the receiver"),
 "C19-7": ("NewSignatureFromBytes reuses the reader's copy helper: len(data) < expected instead of !=, remainder discarded", "NewSignatureFromBytes with at least one byte more than the signature size"),
 "C19-8": ("NewSignature rejects types whose signing key is 'unimplemented' (3, 4, 5, 6); ReadSignature and NewSignatureFromBytes accept them", "NewSignature(data, t) with t in {3,4,5,6}"),
 "C20-7": ("LeaseSet2.Verify() skips verification for the all-zero placeholder signature; vacuously true for an empty one", "LeaseSet2 truncated at or after the minimum size, then Verify() on the returned value: nil"),
 "C20-8": ("RouterAddressCount() / PeerSize() index i.Bytes()[0] behind the nil guard; NewInteger returns a non-nil empty Integer at end of input", "RouterInfo cut right after the published date or right after the last address"),
}
MISSED_FIRST_4 = ["C04-7", "C05-7", "C05-8", "C07-8", "C08-7", "C10-7", "C15-7", "C18-7", "C18-8"]

# round 5 (change 1: write side / shared data; change 2: interaction of two packages or two features); patch k kept as <ID>-<k+8>
INFO5 = {
 "C01-9": ("MetaLeaseSet.Bytes() writes flags & a 'defined flags' mask", "accepted MetaLeaseSet with any flag bit above bit 1"),
 "C01-10": ("serializeLeaseSet2Content validates each key with validateEncryptionKeyConsistency (nominal size of known types) before writing it; the parser only warns", "LeaseSet2 key of a known type 0..7 with a length other than the nominal one"),
 "C02-9": ("mappingOrder compares lower-cased keys first", "constructor-built options with keys whose order depends on letter case (netId vs netdb..., MTU vs host)"),
 "C02-10": ("LeaseSet2 parseOfflineSignature takes the destination signing type from a helper that fails for non-KEY certificates", "LeaseSet2 with a NULL-certificate destination and the offline-keys flag"),
 "C03-9": ("ReadMetaLeaseSet never assigns its named result remainder (always nil)", "any accepted MetaLeaseSet followed by at least one byte"),
 "C03-10": ("RouterInfo signature of a NULL-certificate identity built with the exact-length NewSignatureFromBytes over the rest of the buffer", "RouterInfo with a NULL-certificate identity followed by at least one byte"),
 "C04-9": ("offline_signature size tables as 12-entry arrays with a bounds guard > len instead of >=", "type code 12 reaching SigningPublicKeySize / SignatureSize (readers, constructors, containers with offline keys)"),
 "C04-10": ("RouterAddress.String() counts introducers until the first missing hash; IntroducerHashString clamps out-of-range n to 0: endless loop", "SSU address with ih0, ih1 and ih2 all present, then String() (or RouterInfo.String())"),
 "C05-9": ("Certificate.Bytes() writes NULL / HIDDEN certificates as the bare header, dropping a declared payload the parser accepted", "genuinely DSA-signed structure whose NULL certificate is given a payload after signing"),
 "C05-10": ("ReadLeaseSet2 skips encryption keys of experimental types; Verify re-serialises with the shorter list", "experimental-type key inserted into a signed LeaseSet2, count byte bumped"),
 "C06-9": ("NewLeaseSet2 treats published == 0 as 'now' after the bytes to sign were built", "published = 0 with a real signing key"),
 "C06-10": ("parseEncryptionKeys keeps only keys whose type is in CryptoPublicKeySizes", "signed LeaseSet2 with a key type outside 0..7"),
 "C07-9": ("Base32Address() returns the b33 address for RedDSA destinations", "any Destination with signing type 11"),
 "C07-10": ("CreateBlindedDestination copies the key certificate shallowly and writes the signing type through the shared backing array", "an Ed25519 destination handed to CreateBlindedDestination: the original becomes type 11"),
 "C08-9": ("offline_signature cutField: named results, copy made but never assigned", "any offline signature (standalone or in a container), key / signature bytes overwritten"),
 "C08-10": ("Ed25519 key constructors no longer clone; the clone moved into keys_and_cert only, the legacy LeaseSet caller still passes a view", "legacy LeaseSet whose destination has signing type 7 or 11: revocation key follows input offsets 647..678"),
 "C09-9": ("restricted signing types moved into a shared map; the Destination check aliases it and deletes RedDSA from it", "any Destination checked first, then RouterIdentity paths accept RedDSA (order dependent)"),
 "C09-10": ("LeaseSet2 parser applies the Destination signing-type policy to the effective (transient) signing type", "permitted destination with offline keys whose transient key is Ed25519ph or RSA"),
 "C10-9": ("buildKeyCertificatePayload writes {0, byte(sig), 0, byte(enc)}: high bytes lost", "NewKeyCertificateWithTypes with a code >= 256 (experimental range)"),
 "C10-10": ("GetKeySizes errors when signing + crypto key sizes exceed 384", "pairs with P521 / RSA signing keys"),
 "C11-9": ("mappingOrder compares key + '=' + value", "one key a proper prefix of another whose next byte is <= '='"),
 "C11-10": ("parseKeyValuePairs bounds its loop by ceil(len/6)", "more than ceil(payload/6) pairs: six 5-byte pairs"),
 "C12-9": ("NewI2PString replaces invalid UTF-8 by U+FFFD", "content that is not well-formed UTF-8 through NewI2PString / MappingValues.Add"),
 "C12-10": ("DateFromTime adds the zone offset of the time.Time", "a time expressed in a location other than UTC"),
 "C13-9": ("base32 MAX_DECODE_SIZE re-derived with the ratio inverted (6,553,600)", "size-guarded round trip above 4,096,000 bytes"),
 "C13-10": ("size guards compare the length without CR / LF", "input longer than the limit that contains line breaks"),
 "C14-9": ("NewKeysAndCert loses the signing-key size comparison in a helper refactor", "tuple whose only defect is the signing key length"),
 "C14-10": ("NewLeaseSet takes the expected encryption-key size from the destination's certificate", "legacy LeaseSet for an X25519-certificate destination: valid 256-byte key refused, 32-byte key accepted"),
 "C15-9": ("OldestExpiration skips leases whose end date is 0", ">= 2 leases, one with end date 0"),
 "C15-10": ("LeaseSet2.ExpirationTime returns min(published + expires, offline expiry)", "offline block whose transient key expires before the lease set does"),
 "C16-9": ("blinding goes through uint32(date.Unix())", "instants before 1970 or after 2106-02-07"),
 "C16-10": ("DecryptInnerData wipes the private key it was given (slice-typed forms alias the caller's key)", "the same key value used for a second decrypt"),
 "C17-9": ("NewRouterAddress canonicalises an IP-literal host (drops the zone, rewrites the spelling)", "host fe80::1%eth0 or 2001:DB8::1 through the constructor"),
 "C17-10": ("I2PString.Data() fails for content that is not valid UTF-8", "raw 32- / 16-byte s and i values"),
 "C18-9": ("serializeWithoutSignature swaps an empty signature into the receiver for the duration of the call", ">= 2 goroutines, one in VerifySignature()"),
 "C18-10": ("introducer option keys built in a package-level scratch array", "SSU address, Introducer* accessors or String() called concurrently"),
 "C19-9": ("NewKeyCertificateWithTypes appends a zero-filled excess-key-data placeholder", "signing types 3..6 through the direct constructor versus the builder"),
 "C19-10": ("NULL-certificate branch of ReadKeysAndCert uses a constant certificate and data[387:]", "NULL certificate with a non-zero length field: ReadDestination versus ReadDestinationFromLeaseSet"),
 "C20-9": ("MetaLeaseSet.Bytes() pre-sizes its buffer with offlineSignature.Len() (nil after a failed parse)", "MetaLeaseSet with the offline flag cut inside the offline block (>= 478 bytes)"),
 "C20-10": ("ReadRouterInfo calls Validate() after parsing and returns the populated value with the error", "correctly signed RouterInfo with zero addresses or published = 0: VerifySignature() true on the value returned with an error"),
}
MISSED_FIRST_5 = ["C05-9", "C05-10", "C10-9", "C13-10", "C11-10", "C15-10", "C07-10", "C12-10", "C16-10", "C09-10", "C04-10", "C06-10", "C14-10"]

# round 6 (Go idioms applied where they are not equivalent; least visited clauses); patch k kept as <ID>-<k+10>
INFO6 = {
 "C01-11": ("NULL-certificate identities bypass ReadCertificate: certificate assumed to be the literal 00 00 00, remainder at offset 387", "NULL certificate with a non-zero length field"),
 "C01-12": ("legacy LeaseSet: an ElGamal key failing the range check is 'kept as opaque bytes' but the error branch never copies them (zeros stored)", "encryption_key field that reads as 1 or >= p-1 (e.g. all 0xff)"),
 "C02-11": ("createTransportOptions returns &data.Mapping{} for a nil map: Bytes() omits the 2-byte size field", "NewRouterAddress(..., nil)"),
 "C02-12": ("validateExpiresOffset compares against LEASESET2_TYPICAL_MAX_EXPIRES (660)", "NewLeaseSet2 with an expires offset above 660"),
 "C03-11": ("parseSignatureData wraps the error but still returns a literal nil", "RouterInfo cut anywhere inside its trailing signature: accepted"),
 "C03-12": ("legacy parseLeases multiplies the lease count by the lease size in uint8", "legacy LeaseSet with 6..16 leases"),
 "C04-11": ("MetaLeaseSet header-size check moved before the destination parse (on the whole input): parseHeaderFields slices out of range", "input >= 478 bytes whose destination is >= 471 bytes long, followed by 0..7 bytes"),
 "C04-12": ("RouterVersion() drops the length byte with Get(key)[1:]; Get returns nil for an absent key", "RouterInfo without a router.version option, then RouterVersion() / GoodVersion()"),
 "C05-11": ("Mapping.Data() sorts a copy of the pairs: the wire order of pairs is no longer covered by any re-serialising verifier", "signed structure whose option pairs are exchanged on the wire"),
 "C05-12": ("verifyRouterInfoSignature: for DSA / ECDSA identities the result of verifier.Verify is only logged", "RouterInfo with a DSA_SHA1 identity: any signature accepted"),
 "C06-11": ("LeaseSet.Verify takes the verifier from the LeaseSet's own signing_key field", "NewLeaseSet with a revocation key different from the destination's key"),
 "C06-12": ("CreateOfflineSignature signs SignedData() of a temporary struct carrying the destination's type in the sigtype field", "transient type different from the destination type"),
 "C07-11": ("IdentHash guards with router_info.Validate() instead of the nil check", "RouterInfo with zero addresses: IdentHash errs"),
 "C07-12": ("Destination.Base64 trims the '=' padding", "every serialisation whose length is not a multiple of 3 (all KEY-certificate identities)"),
 "C08-11": ("NewKeyCertificate slices the payload from its bytes argument instead of the certificate's copy: SpkType / CpkType view the input", "any KEY certificate; overwrite certificate offsets 3..6"),
 "C08-12": ("curve25519.Curve25519PublicKey(data[:32]) is a named-slice conversion, not a copy", "ReadKeysAndCertX25519AndEd25519; overwrite input bytes 0..31"),
 "C09-11": ("ReadDestination with named results and bare returns: the refused Destination comes back with the error", "direct ReadDestination of a prohibited identity; visible only if the returned value is inspected"),
 "C09-12": ("MetaLeaseSet parseDestinationField re-implements only the signing-type half of the policy", "MetaLeaseSet whose destination declares ML-KEM crypto types"),
 "C10-11": ("ReadRouterIdentity returns early through the X25519/Ed25519 reader whenever the crypto type is 4", "X25519 with DSA / P-256 / P-384 through ReadRouterIdentity"),
 "C10-12": ("PublicKey() / SigningPublicKey() call the nil-check helper instead of Validate()", "hand-assembled KeysAndCert whose key length differs from the certificate's"),
 "C11-11": ("validateAndConsumeDelimiter strips with bytes.TrimLeft (all leading delimiter bytes)", "value exactly 61 bytes long, or a non-first key exactly 59 bytes long"),
 "C11-12": ("255 limit checked with utf8.RuneCountInString", "string over 255 bytes with at most 255 runes"),
 "C12-11": ("ReadInteger: make + copy, length guard gone", "ReadInteger / NewInteger with fewer bytes than the size"),
 "C12-12": ("ReadI2PString computes length + 1 in byte arithmetic: wraps at 255", "string of exactly 255 bytes"),
 "C13-11": ("base64 decoders read through the stdlib stream decoder, which checks each 1024-character chunk on its own", "padded group ending exactly on a chunk boundary followed by more text"),
 "C13-12": ("DecodeStringSafe sends inputs of exactly 52 bytes to the unpadded decoder", "52-byte input through DecodeStringSafe"),
 "C14-11": ("NewRouterAddress: the error of createTransportType is overwritten by the next call's nil", "transport style longer than 255 bytes"),
 "C14-12": ("NewKeyCertificate rejects payload longer than the key types need (parse path only)", "KEY certificate with extra payload built through the constructors, then parsed"),
 "C15-11": ("MetaLeaseSet.IsExpired subtracts in uint32", "published time later than the local clock"),
 "C15-12": ("createPublishedDate goes through NewDateFromUnix(seconds)", "NewRouterInfo with a millisecond component"),
 "C16-11": ("DecryptInnerData logs leases[0] of the decrypted LeaseSet2", "inner LeaseSet2 with zero leases"),
 "C16-12": ("VerifyBlindedSignature compares the key certificates by pointer identity", "blinded or original destination re-read from its bytes"),
 "C17-11": ("HasValidPort's presence check looks for the host key", "valid port, no host option"),
 "C17-12": ("MappingValues.Get compares keys with strings.EqualFold", "key differing from the requested one only in letter case"),
 "C18-11": ("DecryptInnerData decrypts in place: the plaintext (or zeros after a failure) overwrites the receiver's ciphertext", "any decrypt attempt on a shared EncryptedLeaseSet"),
 "C18-12": ("SharedBandwidthCategory ranges over a package-level map", "caps with more than one bandwidth class letter: result follows map iteration order"),
 "C19-11": ("CertificateBuilder: NULL / HIDDEN 'empty payload' block moved to the top with an early return", "builder type NULL or HIDDEN with a non-empty WithPayload"),
 "C19-12": ("KeyCertificateFromCertificate validates the type codes; NewKeyCertificate(bytes) does not", "KEY certificate with an unassigned / reserved type code"),
 "C20-11": ("Mapping.Validate() delegates to mapping.vals.Validate() (value receiver: dereferences a nil vals)", "mapping cut right after a non-zero size field, then Validate()"),
 "C20-12": ("parseLeaseSetComponents fills a named result and bare-returns on errors: the half-filled LeaseSet escapes", "legacy LeaseSet cut between the destination and the end of the signing key, then Bytes() / Verify()"),
}
MISSED_FIRST_6 = ["C01-12", "C15-12", "C16-11", "C16-12", "C04-11", "C13-11", "C09-11", "C14-11", "C18-11", "C02-11", "C10-11", "C10-12"]

# round 7 (same brief as round 6 with twelve earlier changes listed; exported functions not touched before); patch k kept as <ID>-<k+12>
INFO7 = {
 "C01-13": ("parseLease2Array checks the bounds with LEASE2_SIZE but copies each lease from data[i*LEASE_SIZE:] (44)", "LeaseSet2 with >= 2 leases that are not byte-identical"),
 "C01-14": ("MetaLeaseSet.Bytes() writes offlineSignature.Signature() (signature bytes only) instead of Bytes()", "MetaLeaseSet with the offline-keys flag"),
 "C02-13": ("reserved-flags mask of LeaseSet2 derived from OFFLINE_KEYS and UNPUBLISHED only (0xFFFC)", "NewLeaseSet2 / Validate with the BLINDED flag"),
 "C02-14": ("legacy LeaseSet: signing-key size fallback for non-KEY certificates is 40 (the signature size) instead of 128", "legacy LeaseSet whose destination has a NULL certificate"),
 "C03-13": ("ReadI2PString keeps the length as a byte: length + 1 wraps at 255 (accepted, 0 bytes consumed)", "I2PString with length prefix 0xff"),
 "C03-14": ("LeaseSet2 lease count clamped to 16; the surplus lease bytes are never skipped", "count byte 17..255 with that many leases present"),
 "C04-13": ("certificate type helpers read through cert.Data() while the guard still checks the raw payload", "KEY certificate with declared length 0..3 and trailing bytes, then GetSignatureTypeFromCertificate / GetCryptoTypeFromCertificate"),
 "C04-14": ("RouterInfo skips peer hashes with a bounds check in the wrong unit (peers vs peers*32)", "peer_size N >= 1 with between N and 32N-1 bytes following"),
 "C05-13": ("parseTransportOptions looks at errs[0] only; the benign trailing-data warning always comes first inside a RouterInfo", "junk inside an address's options mapping (size bumped) of a signed RouterInfo"),
 "C05-14": ("validateAndConsumeDelimiter uses bytes.TrimLeft: a run of '=' or ';' is consumed as one delimiter", "extra delimiter bytes after an existing delimiter, mapping size bumped"),
 "C06-13": ("LeaseSet2 reader: key count check numKeys < 16 instead of <=", "LeaseSet2 with exactly 16 encryption keys"),
 "C06-14": ("CreateOfflineSignature hashes the message for Ed25519ph; verifyEd25519ph does not", "CreateOfflineSignature with destination type 8"),
 "C07-13": ("Base32Address hashes Hash() again: base32(SHA-256(SHA-256(bytes)))", "any Destination"),
 "C07-14": ("KeysAndCert.Validate: a NULL certificate must carry no payload; parsers still accept one", "identity whose NULL certificate declares a payload: cannot be serialised or hashed"),
 "C08-13": ("calculateRemainder returns certificate.ExcessBytes(): the remainder is the certificate's private copy", "overwriting through the returned remainder slice changes the certificate's excess bytes"),
 "C08-14": ("EncryptedLeaseSet blinded key: set to data[:keySize], replaced by a copy only when ConstructSigningPublicKeyByType succeeds", "sig types 3..6 (P-521, RSA)"),
 "C09-13": ("BLINDED-flag check reads the type with PublicKeyType() (crypto) instead of SigningPublicKeyType()", "any LeaseSet2 with flag bit 2"),
 "C09-14": ("legacy LeaseSet: the destination's CryptoSize() must equal 256", "legacy LeaseSet of a destination declaring X25519"),
 "C10-13": ("KeyCertificate size accessors go through GetKeySizes(spk, cpk): a per-code answer depends on the other code", "certificate with one known and one unknown code"),
 "C10-14": ("constructECDSAP256Key always copies data[:64] (padded-field branch removed)", "ConstructSigningPublicKey / ByType with the 128-byte field for signing type 1"),
 "C11-13": ("handleInsufficientData returns early for an empty remainder, before the error is appended", "two-byte input with a non-zero size field"),
 "C11-14": ("parse-side size check mapping_len >= 65535", "maximal mapping of exactly 65,535 payload bytes"),
 "C12-13": ("merged range validation drops the explicit negative check; at width 8 the maximum is MaxUint64", "negative value with size 8"),
 "C12-14": ("DateFromTime loop for i := DATE_SIZE-1; i > 0: the most significant byte is never written", "millisecond values >= 2^56"),
 "C13-13": ("base64.DecodeStringSafe trims with strings.TrimSpace before decoding", "leading / trailing whitespace other than CR / LF (also: line-break-only input counts as empty)"),
 "C13-14": ("DecodeStringSafeNoPadding strips a '.b32.i2p' suffix with strings.TrimRight (a character set)", "unpadded text ending in one of b 3 2 i p ."),
 "C14-13": ("NewOfflineSignature reuses the parser's lower-bound length helpers", "transient key or signature longer than its type requires"),
 "C14-14": ("KeyLen compared with uint16(len(KeyData))", "KeyData longer than KeyLen by a multiple of 65,536"),
 "C15-13": ("NewLease shares the Lease2 range check (2^32-1 s)", "NewLease with an expiration at or after 2106-02-07"),
 "C15-14": ("LeaseSet2.IsExpired also returns true when every lease has ended", "header expiry ahead, all lease end dates in the past"),
 "C16-13": ("EncryptInnerLeaseSet2 size check bounded by MaxInt16", "LeaseSet2 longer than 32,707 bytes"),
 "C16-14": ("deriveBlindedPublicKey substitutes time.Now() when date.IsZero()", "the instant 0001-01-01T00:00:00Z"),
 "C17-13": ("extractOptionBytes trims whitespace before Host() / Port() parse; the helpers see the raw value", "IP literal or port with leading / trailing whitespace"),
 "C17-14": ("validatePortValue returns the option string instead of strconv.Itoa(val)", "valid port spelled non-canonically (0080, +443)"),
 "C18-13": ("sync.Mutex added to RouterInfo and taken by readers; value-receiver methods copy the struct, mutex included", ">= 2 read-only goroutines on one RouterInfo"),
 "C18-14": ("MetaLeaseSet.Verify writes the transient key into the shared KeysAndCert of its own destination", "MetaLeaseSet with an offline signature: first Verify() mutates the receiver"),
 "C19-13": ("CertificateBuilder.WithType clears payload and payloadSet on a type change", "WithPayload(p) then WithType(t) on a fresh builder"),
 "C19-14": ("ReadDestinationFromLeaseSet length guard < became <=", "buffer ending exactly at the end of the destination"),
 "C20-13": ("KeysAndCert.PublicKey() / SigningPublicKey() lose the KeyCertificate nil check", "fixed-size readers on an encoding cut to 387..390 bytes, then the accessors"),
 "C20-14": ("KeyCertificate type accessors decode with binary.BigEndian.Uint16(field)", "zero value KeyCertificate{}"),
}
MISSED_FIRST_7 = ["C16-13", "C16-14", "C04-13", "C05-13", "C05-14", "C06-14", "C10-13", "C10-14", "C03-14", "C14-14", "C08-13", "C08-14"]
# round 8 (same brief with all fourteen earlier changes listed; twelve properties only); patch k kept as <ID>-<k+14>
INFO8 = {
 "C03-15": ("ReadOfflineSignature checks the signature length against len(data) (whole input) instead of the remainder", "OfflineSignature cut inside its trailing signature while the whole input is still at least one signature long (panic)"),
 "C03-16": ("ReadMapping's empty-mapping shortcut also taken when nothing follows the size field", "non-empty mapping (or RouterAddress) cut exactly after the 2-byte size field"),
 "C04-15": ("extractPaddingFromData derives the padding from the two per-field paddings; the separate oversize guard is dropped", "KEY certificate with signing type 3 / 4 (P-521, RSA-2048) and crypto type 4..7 (32-byte key): padding[:224] panics"),
 "C04-16": ("ReadDestinationFromLeaseSet loses its minimum-length check", "exported function called directly with fewer than 384 bytes (nil included)"),
 "C05-15": ("parseTransportType trims white space from the parsed transport_style and rebuilds the string", "white-space bytes inserted at either end of an address's transport_style of a signed RouterInfo, length byte raised to match"),
 "C05-16": ("MetaLeaseSet entry type stored as data[0] & 0x0f", "any of bits 7..4 set in an entry's type byte of a signed MetaLeaseSet"),
 "C06-15": ("RouterInfo.Bytes() prerequisite: size field must agree with the address list, \"or len(addresses) == 0\" added by a slip", "RouterInfo with no addresses"),
 "C06-16": ("VerifySignature prerequisite: published == nil or published.IsZero()", "RouterInfo published at the Unix epoch (0 ms)"),
 "C08-15": ("certificate kind / len / payload carved out of one private buffer: append in Bytes() / RawBytes() / KeyCertificate.Data() writes in place and returns the certificate's own storage", "overwriting a slice returned by one of those accessors, then observing the certificate again - accessors that do not promise a copy: outside the second clause of C08; the in-place append makes Bytes() a writer, reported by C18 as a data race"),
 "C08-16": ("signature.NewSignature builds the value from the uncopied view data[:n:n]; ReadSignature and NewSignatureFromBytes still copy", "NewSignature called directly, input overwritten afterwards"),
 "C09-15": ("parseRouterInfoSignature always reads the signature type through the KEY-certificate helper", "ReadRouterInfo of an identity with a NULL certificate (DSA_SHA1, ElGamal)"),
 "C09-16": ("MetaLeaseSet offline block: a switch over the allowed destination signing types forgets RedDSA", "MetaLeaseSet with the offline-keys flag and a destination declaring signing type 11"),
 "C10-15": ("LeaseSet2 encryption-key validation looks sizes up in a local helper that lists crypto types 0 and 4..7 only", "LeaseSet2 encryption key of type 1, 2 or 3 with the wrong length (NewLeaseSet2, Validate)"),
 "C10-16": ("NewEncryptedLeaseSet compares the blinded key length with the Ed25519 size instead of the table's size for the type", "NewEncryptedLeaseSet with signing types 0..6"),
 "C13-15": ("DecodeStringSafe joins wrapped lines with bufio.Scanner and never looks at its error", "text with at least one CR / LF and a line of 65,536 characters or more"),
 "C13-16": ("validateEncodedInput: case pad > 0 && c != '=' hoisted above the CR / LF case", "padded base32 with a CR / LF after the first '='"),
 "C14-15": ("ToI2PString checks the 255 limit in runes; the prefix is still byte(len(data))", "string of more than 255 bytes but at most 255 runes (multi-byte UTF-8) through GoMapToMapping / NewRouterAddress / NewRouterInfo"),
 "C14-16": ("NewRouterInfo builds the address count with byte(len(addresses))", "NewRouterInfo with more than 255 addresses"),
 "C15-15": ("NewLease2 maps the zero time.Time to the epoch above the range check", "NewLease2(time.Time{}) (Unix second -62135596800)"),
 "C15-16": ("NewDateFromUnix detects overflow by the sign of timestamp*1000", "seconds >= 2^64/1000 whose product wraps to a non-negative value"),
 "C16-15": ("DecryptInnerData rejects an all-zero cookie; EncryptInnerLeaseSet2 accepts it", "cookie of 32 zero bytes"),
 "C16-16": ("decryptWithAEAD opens in place (Open(sealed[:0], ...)) on a sub-slice of the stored ciphertext", "one EncryptedLeaseSet value decrypted twice, or serialised after a decrypt"),
 "C18-15": ("RouterInfo.RouterAddresses() filters nil entries in place (addresses[:0] + append)", ">= 2 goroutines on a RouterInfo with an address, one in an address query"),
 "C18-16": ("EncryptedLeaseSet.bytesWithoutSignature() sets the offline-keys flag on the struct field (value already stored)", "EncryptedLeaseSet with an offline-signature block, >= 2 goroutines, one in Bytes() / Verify()"),
}
MISSED_FIRST_8 = ["C05-15", "C05-16", "C08-15", "C10-16", "C13-15", "C14-16", "C15-15", "C15-16", "C16-15"]
# round 9 (the eight properties round 8 left out; all fourteen earlier changes listed); patch k kept as <ID>-<k+14>
INFO9 = {
 "C01-15": ("serializeLeaseSet2Content: the lease count byte sits inside if len(leases) > 0", "accepted LeaseSet2 with zero leases: re-serialises one byte short"),
 "C01-16": ("validateFixedKeySizes: a != x or b != y rewritten as !(a == x or b == y)", "ReadKeysAndCertElgAndEd25519 / ReadKeysAndCertX25519AndEd25519 on a KEY certificate with exactly one matching size: accepted, Bytes() fails"),
 "C02-15": ("ReadLeaseSet2 flattened: the last step assigns data, err = ..., the named result remainder is never set", "well-formed LeaseSet2 followed by trailing bytes: remainder nil"),
 "C02-16": ("parseEntryProperties tests len(errs) > 0 instead of len(fatal) > 0: the benign trailing-data warning is fatal", "MetaLeaseSet with an entry whose properties mapping is not empty"),
 "C07-15": ("buildKeysAndCertBlock builds the block with append(ReceivingPublic.Bytes(), padding...)", "constructed identity whose X25519 key is a window into a larger buffer (cap >= 391): Bytes / Hash write behind the key"),
 "C07-16": ("Destination.Equals compares with bytes.EqualFold", "single-byte differences in ASCII letter case or between bytes that are invalid UTF-8"),
 "C11-15": ("Mapping.ToGoMap returns a nil map for zero pairs", "empty mapping, compared as a Go value (nil vs empty map): the pairs are the same - not a violation of C11, which speaks about the map's content"),
 "C11-16": ("serializeMappingPairs sizes its buffer with the two length bytes added as byte (wraps at 256); copy truncates", "pair with len(key) + len(value) >= 256"),
 "C12-15": ("EncodeIntN: zero-value fast path above the size check", "EncodeIntN(0, size) with size outside 1..8"),
 "C12-16": ("DecodeIntN dispatches width 4 to DecodeInt32 (sign-extended)", "4-byte values >= 2^31"),
 "C17-15": ("introducer accessors merged into one helper whose range guard falls back to 0 for the highest number", "IntroducerHashString / ExpirationString / TagString with introducer number 2"),
 "C17-16": ("HasValidPort parses with strconv.ParseUint; Port() still uses Atoi", "port with an explicit plus sign (+443)"),
 "C19-15": ("CertificateBuilder.Validate copies the payload-size check and loses the 72-byte SIGNED alternative", "WithType(SIGNED).WithPayload(72 bytes).Build() versus NewCertificateWithType"),
 "C19-16": ("WithPayload reuses the builder's buffer (append(cb.payload[:0], ...)); Build() hands it over without a copy", "builder reused: a later WithPayload overwrites the certificate built earlier"),
 "C20-15": ("RouterVersion() strips the length byte with Get(...)[1:]", "failed-parse RouterInfo whose options are non-nil but lack router.version, then RouterVersion() / GoodVersion()"),
 "C20-16": ("OfflineSignature.Bytes(): buffer sized by the slices held, key offset by the declared type", "OfflineSignature{} and ReadOfflineSignature results cut inside the transient key"),
}
MISSED_FIRST_9 = ["C07-15", "C11-15", "C17-15", "C19-16"]
MISSED_FIRST_2 = ["C05-4", "C06-3", "C07-4", "C09-3", "C10-4", "C15-3", "C17-3", "C18-4", "C19-3", "C19-4"]


def main():
    out_root = os.path.join(V, "seeded")
    os.makedirs(out_root, exist_ok=True)
    n = 0
    missed3 = set()
    for key in INFO3:
        pid, k = key.split("-")
        f = os.path.join(SRC, "results3-old", "%s-%d.json" % (pid, int(k) - 4))
        try:
            if json.load(open(f))[pid]["rc"] != 1:
                missed3.add(key)
        except Exception:
            pass
    allinfo = dict(INFO)
    allinfo.update(INFO2)
    allinfo.update(INFO3)
    allinfo.update(INFO4)
    allinfo.update(INFO5)
    allinfo.update(INFO6)
    allinfo.update(INFO7)
    allinfo.update(INFO8)
    allinfo.update(INFO9)
    for key in sorted(allinfo):
        pid, k = key.split("-")
        round2 = key in INFO2
        round3 = key in INFO3
        round4 = key in INFO4
        round5 = key in INFO5
        round6 = key in INFO6
        round7 = key in INFO7
        round8 = key in INFO8
        round9 = key in INFO9
        if round2:
            k = str(int(k) - 2)
        if round3:
            k = str(int(k) - 4)
        if round4:
            k = str(int(k) - 6)
        if round5:
            k = str(int(k) - 8)
        if round6:
            k = str(int(k) - 10)
        if round7:
            k = str(int(k) - 12)
        if round8 or round9:
            k = str(int(k) - 14)
        src = os.path.join(SRC, ("R9" if round9 else "R8" if round8 else "R7" if round7 else "R6" if round6 else "R5" if round5 else "R4" if round4 else "R3" if round3 else "R2" if round2 else "") + pid + "-out")
        conf = os.path.join(src, "confirm%s.json" % k)
        if not os.path.exists(conf):
            continue
        c = json.load(open(conf))
        if not c.get("ok"):
            print(key, "not confirmed:", c.get("error", "")[:100])
            continue
        dst = os.path.join(out_root, key)
        os.makedirs(dst, exist_ok=True)
        if not any(f.startswith("patch.orig-base-") for f in os.listdir(dst)):  # a rebased patch is kept
            shutil.copy(os.path.join(src, "patch%s.diff" % k), os.path.join(dst, "patch.diff"))
        for f in os.listdir(src):
            if f.startswith("demo%s" % k) and os.path.isfile(os.path.join(src, f)):
                shutil.copy(os.path.join(src, f), os.path.join(dst, f))
        if os.path.exists(os.path.join(src, "notes.md")):
            shutil.copy(os.path.join(src, "notes.md"), os.path.join(dst, "notes.md"))
        caught, missed, detail = [], [], {}
        rp = os.path.join(SRC, "results9" if round9 else "results8" if round8 else "results7" if round7 else "results6" if round6 else "results5" if round5 else "results4" if round4 else "results3" if round3 else "results2" if round2 else "results", "%s-%s.json" % (pid, k))
        if os.path.exists(rp):
            try:
                r = json.load(open(rp))
                for cid, v in r.items():
                    if isinstance(v, dict):
                        (caught if v["rc"] == 1 else missed).append(cid)
                        if v["rc"] == 1:
                            detail[cid] = v["detail"][:300]
            except Exception:
                pass
        extra = os.path.join(dst, "rerun.json")
        if os.path.exists(extra):
            for cid, v in json.load(open(extra)).items():
                if isinstance(v, dict) and v["rc"] == 1 and cid not in caught:
                    caught.append(cid)
                    detail[cid] = v["detail"][:300]
                    if cid in missed:
                        missed.remove(cid)
        what, needs = allinfo[key]
        meta = dict(
            property=pid, seed=key, origin="sub-agent given only the property text and a scratch worktree",
            what=what, needs_to_manifest=needs,
            confirmed=dict(
                how="seedtool.py confirm: patch applied in a scratch worktree of /repo, `go build ./...`, full existing suite (`go test -vet=off -count=1 ./...`), demo with the patch, patch reverted, demo again" + (" (demo under -race)" if pid == "C18" else ""),
                suite_passes_with_patch=c.get("suite_rc") == 0, demo_fails_with_patch=c.get("demo_rc_with") != 0, demo_passes_without_patch=c.get("demo_rc_without") == 0,
                demo_dir=c.get("demo_dir")),
            checks_run=("quick tier of the target check (and of the neighbouring checks listed) against a scratch worktree with the patch applied (seedtool.py run, VERIF_REPO)" if (round2 or round3 or round4 or round5 or round6 or round7 or round8 or round9) else "quick tier of every check against a scratch worktree with the patch applied (seedtool.py run, VERIF_REPO)"),
            missed_at_first=(key in MISSED_FIRST_2) if round2 else (key in missed3) if round3 else (key in MISSED_FIRST_4) if round4 else (key in MISSED_FIRST_5) if round5 else (key in MISSED_FIRST_6) if round6 else (key in MISSED_FIRST_7) if round7 else (key in MISSED_FIRST_8) if round8 else (key in MISSED_FIRST_9) if round9 else None,
            round=9 if round9 else 8 if round8 else 7 if round7 else 6 if round6 else 5 if round5 else 4 if round4 else 3 if round3 else 2 if round2 else 1,
            caught_by=sorted(caught), first_report=detail.get(pid) or (detail[sorted(detail)[0]] if detail else ""),
            not_reporting=sorted(missed))
        json.dump(meta, open(os.path.join(dst, "meta.json"), "w"), indent=1)
        n += 1
        print(key, "caught by", sorted(caught), ("  TARGET MISSED" if (pid not in caught and (caught or missed)) else ""))
    print(n, "seeds collected")


if __name__ == "__main__":
    main()
