#!/usr/bin/env python3
"""Collects confirmed seeded breakages from the sub-agents' output directories
(/tmp/wt/<ID>-out) into /verif/seeded/<ID>-<k>/ (patch.diff, demo, notes.md,
meta.json). Re-runnable: caught_by is refreshed from /tmp/wt/results."""
import json
import os
import shutil
import sys

V = os.path.dirname(os.path.abspath(__file__))
SRC = "/tmp/wt"

# what each change is and what it needs in order to manifest (from the sub-agents' reports)
INFO = {
 "C01-1": ("buildKeysAndCertBlock refactored to one contiguous padding copy guarded only by sigPaddingSize > 0: padding serialised as zeros", "KEY certificate pairing a 128-byte signing key (DSA_SHA1) with a 32-byte crypto key (X25519 / MLKEM) and non-zero padding"),
 "C01-2": ("RouterAddress.Bytes writes a literal zero expiration instead of the parsed one", "an accepted RouterAddress / RouterInfo whose expiration bytes are not all zero (the constructors never produce one)"),
 "C02-1": ("same mechanism as C01-1 with guard padEnd > 256", "DSA_SHA1 signing + 32-byte crypto key, non-zero padding"),
 "C02-2": ("LeaseSet2 trailing signature typed by offlineSig.DestinationSigType() in reader and constructor alike", "offline block whose transient signing type has a different signature length than the destination's (Ed25519 destination with DSA or P384 transient key)"),
 "C03-1": ("parseTransportOptions ignores every error starting with 'warning parsing mapping:' - also 'mapping length exceeds provided data'", "a RouterAddress cut inside its options mapping on (or up to 5 bytes past) a pair boundary"),
 "C03-2": ("parseSignatureAndFinalize sizes the LeaseSet2 signature by the destination's type", "offline keys present, transient signature length != destination signature length (P384: stops 32 bytes early; DSA: swallows 24 bytes of what follows)"),
 "C04-1": ("bounds guard in isCompleteShortPair weakened (eq >= n): remainder[eq+1] read unguarded -> index out of range", "mapping tail of exactly 4 or 5 unparsed bytes whose first byte is n-2 and last byte '=' (02 k k 3d)"),
 "C04-2": ("ipVersionFromCaps slices str[len(str)-1:] instead of HasSuffix -> slice bounds panic", "caps option present with an empty value, host absent or not an IP literal, then IPVersion/Network/UDP/String (or RouterInfo.HasIPv4/HasIPv6)"),
 "C05-1": ("serializeWithoutSignature writes a literal 0x00 for peer_size: that byte is not covered by RouterInfo.VerifySignature", "editing exactly the peer_size byte of a signed RouterInfo"),
 "C05-2": ("LeaseSet2.verifyOfflineSignature caches verified offline blocks in a package-level map keyed by the block bytes, not by the identity", "two-step history: identity A's LeaseSet2 with block O verified once in the process, then identity B's LeaseSet2 carrying O and signed by A's transient key"),
 "C06-1": ("parseLeases pre-checks remaining bytes with LEASE_SIZE (44) instead of LEASE2_SIZE (40)", "40-byte DSA trailing signature and 11..16 leases with nothing following the LeaseSet2"),
 "C06-2": ("OfflineSignature.VerifySignature calls Validate() (with expiry) instead of ValidateStructure()", "an expires timestamp at or before now"),
 "C07-1": ("same mechanism as C01-1", "X25519 + DSA_SHA1 identity with non-zero padding: padding bytes no longer take part in hash, address and equality"),
 "C07-2": ("RouterIdentity.Equal compares components in place using KeyCertificate.RawBytes(), which keeps whatever followed the certificate in the parse buffer", "the same identity parsed from a buffer that continues after it (RouterInfo, stream) versus parsed standalone"),
 "C08-1": ("extractPaddingFromData returns append(view, ...) of a capped sub-slice: when nothing is appended the view itself (aliasing the input) is returned", "DSA_SHA1 signing type in a KEY certificate with a 32-byte crypto key, then overwrite of input bytes 32..255"),
 "C08-2": ("EncryptedLeaseSet keeps a sub-slice of the input (signedContent) and Verify() reads through it", "a validly signed EncryptedLeaseSet parsed by ReadEncryptedLeaseSet, buffer overwritten, then Verify()"),
 "C09-1": ("validateRouterIdentityKeyTypes restructured as a switch: a DSA_SHA1 identity never reaches the crypto-type check", "signing type 0 paired with MLKEM crypto type 5, 6 or 7 on any RouterIdentity path"),
 "C09-2": ("ReadDestination gains a fast path through ReadKeysAndCertX25519AndEd25519 that returns before the key-type policy", "two 32-byte keys with a prohibited type: (Ed25519ph, X25519) or (Ed25519/RedDSA, MLKEM)"),
 "C10-1": ("CryptoPublicKeySizes derived from CryptoKeySizes by a helper that copies the private-key size", "crypto codes 1, 2, 3 (P-256/P-384/P-521), where public and private sizes differ"),
 "C10-2": ("extractPaddingFromData guard pubPaddingSize < 0 || sigPaddingSize <= 0 returns nil padding when the signing key fills its field", "signing type 0 with crypto type 4..7 through ReadKeysAndCert"),
 "C11-1": ("mappingOrder compares keys as []rune: invalid UTF-8 bytes all decode to U+FFFD", ">= 2 keys containing invalid UTF-8 that differ only in the invalid bytes (or vs U+FFFE/U+10000+)"),
 "C11-2": ("ValuesToMapping's size check omits the two length-prefix bytes per pair", "a map whose real payload is 65,536..65,535+2N bytes: accepted, size field wraps"),
 "C12-1": ("EncodeIntN takes its limit from a lookup table whose width-7 entry is 2^60-1", "width 7 and a value in [2^56, 2^60)"),
 "C12-2": ("validateI2PStringDataLength compares length > len(data) (off by one): slice-bounds panic", "string input with exactly one content byte missing"),
 "C13-1": ("DecodeStringSafeNoPadding calls the stdlib decoder directly, skipping validateEncodedInput", "byte 0xFF where '=' padding would be legal, through that one function only"),
 "C13-2": ("shared size guard tests n >= MAX_DECODE_SIZE", "input of exactly MAX_DECODE_SIZE characters"),
 "C14-1": ("constructor-side determineSignatureType returns DestinationSigType for offline LeaseSet2s", "offline keys with a transient type whose signature length differs from the destination's: NewLeaseSet2+Validate+Bytes succeed, ReadLeaseSet2 fails"),
 "C14-2": ("validateConstructorFlags rewritten as a switch on flags that misses 0x0002", "NewEncryptedLeaseSet(flags = UNPUBLISHED only, offlineSig != nil): succeeds, Validate() fails"),
 "C15-1": ("LeaseSet2.ExpirationTime sums published+expires in uint32", "published + expires >= 2^32"),
 "C15-2": ("Newest/OldestExpiration compare date.Time().UnixNano()", ">= 2 leases with at least one end date after 2262-04-11"),
 "C16-1": ("DecryptInnerData caches the first successfully decrypted LeaseSet2 regardless of the key", "same EncryptedLeaseSet value: decrypt with the right key, then with a wrong key"),
 "C16-2": ("blinding date string from date.Truncate(24h).Format (keeps the Location)", "any instant expressed in a zone west of UTC"),
 "C17-1": ("ipVersionFromHost uses netip.ParseAddr + Is4", "IPv4-mapped IPv6 literal (::ffff:a.b.c.d) or zoned literal as host"),
 "C17-2": ("validatePortValue uses strconv.ParseInt(s, 0, 32)", "zero-padded, 0x/0b/0o-prefixed or underscored port strings"),
 "C18-1": ("certificate header copied once and kind/len sliced out of it: Bytes()'s append(kind, len...) writes in place", "a parsed value serialised by >= 2 goroutines, under the race detector"),
 "C18-2": ("LeaseSet2.Verify memoises the transient key in an unexported field without a lock", "offline-signed LeaseSet2 whose first Verify() calls happen concurrently (a sequential warm-up hides it), under the race detector"),
 "C19-1": ("CertificateBuilder regenerates the key-type payload only when len(payload) != 4", "builder reuse: WithKeyTypes, Build, WithKeyTypes, Build - or WithPayload(4 bytes) followed by WithKeyTypes"),
 "C19-2": ("extractKeyCertificate of the fixed-size readers parses only data[384:391]", "in-type identity (Ed25519 + ElGamal/X25519) whose KEY certificate declares more than 4 payload bytes"),
 "C20-1": ("parseRouterAddresses pre-allocates the address slice: a failed parse leaves nil entries", "RouterInfo truncated inside its address section, then HasIPv4/HasIPv6/SupportsNTCP2/SupportsSSU2"),
 "C20-2": ("signingPublicKeyForVerification guard reduced to HasOfflineKeys()", "LeaseSet2 truncated inside its offline block (flag set, nil block) then Verify()"),
}


def main():
    out_root = os.path.join(V, "seeded")
    os.makedirs(out_root, exist_ok=True)
    n = 0
    for key in sorted(INFO):
        pid, k = key.split("-")
        src = os.path.join(SRC, pid + "-out")
        conf = os.path.join(src, "confirm%s.json" % k)
        if not os.path.exists(conf):
            continue
        c = json.load(open(conf))
        if not c.get("ok"):
            print(key, "not confirmed:", c.get("error", "")[:100])
            continue
        dst = os.path.join(out_root, key)
        os.makedirs(dst, exist_ok=True)
        shutil.copy(os.path.join(src, "patch%s.diff" % k), os.path.join(dst, "patch.diff"))
        for f in os.listdir(src):
            if f.startswith("demo%s" % k) and os.path.isfile(os.path.join(src, f)):
                shutil.copy(os.path.join(src, f), os.path.join(dst, f))
        if os.path.exists(os.path.join(src, "notes.md")):
            shutil.copy(os.path.join(src, "notes.md"), os.path.join(dst, "notes.md"))
        caught, missed, detail = [], [], {}
        rp = os.path.join(SRC, "results", "%s.json" % key)
        if os.path.exists(rp):
            try:
                r = json.load(open(rp))
                for cid, v in r.items():
                    if isinstance(v, dict):
                        (caught if v["rc"] == 1 else missed).append(cid)
                        if v["rc"] == 1:
                            detail[cid] = v["detail"][:300]
            except Exception:
                pass
        extra = os.path.join(dst, "rerun.json")
        if os.path.exists(extra):
            for cid, v in json.load(open(extra)).items():
                if isinstance(v, dict) and v["rc"] == 1 and cid not in caught:
                    caught.append(cid)
                    detail[cid] = v["detail"][:300]
                    if cid in missed:
                        missed.remove(cid)
        what, needs = INFO[key]
        meta = dict(
            property=pid, seed=key, origin="sub-agent given only the property text and a scratch worktree",
            what=what, needs_to_manifest=needs,
            confirmed=dict(
                how="seedtool.py confirm: patch applied in a scratch worktree of /repo, `go build ./...`, full existing suite (`go test -vet=off -count=1 ./...`), demo with the patch, patch reverted, demo again" + (" (demo under -race)" if pid == "C18" else ""),
                suite_passes_with_patch=c.get("suite_rc") == 0, demo_fails_with_patch=c.get("demo_rc_with") != 0, demo_passes_without_patch=c.get("demo_rc_without") == 0,
                demo_dir=c.get("demo_dir")),
            checks_run="quick tier of every check against a scratch worktree with the patch applied (seedtool.py run, VERIF_REPO)",
            caught_by=sorted(caught), first_report=detail.get(pid) or (detail[sorted(detail)[0]] if detail else ""),
            not_reporting=sorted(missed))
        json.dump(meta, open(os.path.join(dst, "meta.json"), "w"), indent=1)
        n += 1
        print(key, "caught by", sorted(caught), ("  TARGET MISSED" if (pid not in caught and (caught or missed)) else ""))
    print(n, "seeds collected")


if __name__ == "__main__":
    main()
